package zzverifsim

import (
	"fmt"
	"sort"
	"sync"
	"unsafe"
)

func lessAny(a, b interface{}) bool {
	switch x := a.(type) {
	case uint64:
		return x < b.(uint64)
	case string:
		return x < b.(string)
	case int:
		return x < b.(int)
	case int64:
		return x < b.(int64)
	default:
		return fmt.Sprint(a) < fmt.Sprint(b)
	}
}

// MapKeys replaces `range m` over a Go map: the keys in canonical (sorted) order, permuted by
// the run's map-order source. The rewritten loop re-checks presence per key, which is a legal
// refinement of Go's iteration semantics under mutation.
func MapKeys[K comparable, V any](m map[K]V) []K {
	keys := make([]K, 0, len(m))
	for k := range m {
		keys = append(keys, k)
	}

	sort.Slice(keys, func(i, j int) bool { return lessAny(keys[i], keys[j]) })

	s := cur()
	if s == nil || s.cfg.Perm == nil || len(keys) < 2 {
		return keys
	}

	p := s.cfg.Perm(len(keys))
	out := make([]K, len(keys))

	for i, j := range p {
		out[i] = keys[j]
	}

	return out
}

// SMLoad replaces (*sync.Map).Load.
func SMLoad(m *sync.Map, k interface{}) (interface{}, bool) {
	YieldFine("sm.Load")
	SyncOp(m)

	return m.Load(k)
}

// SMStore replaces (*sync.Map).Store.
func SMStore(m *sync.Map, k, v interface{}) {
	YieldFine("sm.Store")
	SyncOp(m)
	m.Store(k, v)
}

// SMCompareAndDelete replaces (*sync.Map).CompareAndDelete.
func SMCompareAndDelete(m *sync.Map, k, old interface{}) bool {
	YieldFine("sm.CompareAndDelete")
	SyncOp(m)

	return m.CompareAndDelete(k, old)
}

// SMDelete replaces (*sync.Map).Delete.
func SMDelete(m *sync.Map, k interface{}) {
	YieldFine("sm.Delete")
	SyncOp(m)
	m.Delete(k)
}

// SMLoadAndDelete replaces (*sync.Map).LoadAndDelete.
func SMLoadAndDelete(m *sync.Map, k interface{}) (interface{}, bool) {
	YieldFine("sm.LoadAndDelete")
	SyncOp(m)

	return m.LoadAndDelete(k)
}

// SMLoadOrStore replaces (*sync.Map).LoadOrStore.
func SMLoadOrStore(m *sync.Map, k, v interface{}) (interface{}, bool) {
	YieldFine("sm.LoadOrStore")
	SyncOp(m)

	return m.LoadOrStore(k, v)
}

// SMRange replaces (*sync.Map).Range: the key set is snapshotted when the call starts, each
// value is loaded when its key is visited, keys deleted meanwhile are skipped and keys added
// meanwhile are not visited - what the real implementation does for a map whose read-only part
// was promoted at the start of Range - in canonical order permuted by the run's source, with a
// yield before each callback.
func SMRange(m *sync.Map, f func(k, v interface{}) bool) {
	s := cur()
	if s == nil {
		m.Range(f)

		return
	}

	YieldFine("sm.Range")
	SyncOp(m)

	var keys []interface{}

	m.Range(func(k, _ interface{}) bool {
		keys = append(keys, k)

		return true
	})

	sort.Slice(keys, func(i, j int) bool { return lessAny(keys[i], keys[j]) })

	if s.cfg.Perm != nil && len(keys) > 1 {
		p := s.cfg.Perm(len(keys))
		out := make([]interface{}, len(keys))

		for i, j := range p {
			out[i] = keys[j]
		}

		keys = out
	}

	for _, k := range keys {
		YieldFine("sm.Range.next")
		SyncOp(m)

		v, ok := m.Load(k)
		if !ok {
			continue
		}

		if !f(k, v) {
			return
		}
	}
}

// MapPtr returns the address identifying a Go map (its header) for the detector.
func MapPtr[K comparable, V any](m map[K]V) unsafe.Pointer {
	return *(*unsafe.Pointer)(unsafe.Pointer(&m))
}

// --- sync.Pool -----------------------------------------------------------------------------------
//
// The real pool hands items out per P and may drop them at any GC: which Get sees which Put is not
// decided by the program. The model is the adversarial legal behaviour, made deterministic: a LIFO stack per
// pool and per run - a Get always receives the most recently Put item if there is one.

var (
	poolMu sync.Mutex
	pools  = map[*Sim]map[*sync.Pool][]interface{}{}
)

// PoolGet replaces (*sync.Pool).Get.
func PoolGet(p *sync.Pool) interface{} {
	s := cur()
	if s == nil {
		return p.Get()
	}

	YieldFine("pool.Get")

	poolMu.Lock()
	st := pools[s][p]

	if n := len(st); n > 0 {
		x := st[n-1]
		pools[s][p] = st[:n-1]
		poolMu.Unlock()
		SyncOp(p)

		return x
	}
	poolMu.Unlock()

	if p.New != nil {
		return p.New()
	}

	return nil
}

// PoolPut replaces (*sync.Pool).Put.
func PoolPut(p *sync.Pool, x interface{}) {
	s := cur()
	if s == nil {
		p.Put(x)

		return
	}

	YieldFine("pool.Put")
	SyncOp(p)

	poolMu.Lock()
	if pools[s] == nil {
		pools[s] = map[*sync.Pool][]interface{}{}
	}

	pools[s][p] = append(pools[s][p], x)
	poolMu.Unlock()
}

// dropPools forgets a finished run's pools.
func dropPools(s *Sim) {
	poolMu.Lock()
	delete(pools, s)
	poolMu.Unlock()
}
