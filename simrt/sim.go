// Package zzverifsim is the deterministic-simulation runtime that is compiled into the
// instrumented scratch copy of github.com/bool64/cache (as cache/zzverifsim) and into the
// harness. It owns: which task (goroutine) runs next, mutex blocking, spawned goroutines,
// channel wake-ups, map / sync.Map iteration order and the TTL jitter draw. The clock is the
// testing/synctest bubble clock; the harness passes synctest.Wait in as Config.Wait.
//
// Written in Go 1.18 syntax on purpose: the scratch module keeps `go 1.18` in go.mod.
package zzverifsim

import (
	"fmt"
	"hash/fnv"
	"runtime"
	"sort"
	"sync"
	"sync/atomic"
	"time"
)

// TaskState is the scheduler's view of a task.
type TaskState int

// Task states.
const (
	Parked  TaskState = iota // at a yield point, waiting for the scheduler (possibly wanting a lock / condition)
	Running                  // the one task that executes; or blocked outside the simulator if block != BlockNone
	Done
)

// BlockKind says what a Running task is blocked on outside the simulator.
type BlockKind int

// Block kinds.
const (
	BlockNone   BlockKind = iota
	BlockChan             // plain channel receive (e.g. waiter on keyLock.lock)
	BlockSelect           // select statement of the library (janitor / reporter): idle
	BlockSleep            // harness sleep on the simulated clock
)

// LockKind distinguishes write and read acquisition.
type LockKind int

// Lock kinds.
const (
	LockW LockKind = iota
	LockR
)

// Task is one goroutine executing library or harness code under the simulator.
type Task struct {
	ID     string
	Label  string
	Daemon bool

	s     *Sim
	state TaskState
	at    string // label of the yield point the task is parked at
	fine  bool

	wantLock interface{}
	wantKind LockKind
	cond     func() bool

	block      BlockKind
	blockLabel string

	wake chan struct{}

	children int

	// Blocks and Wakes count external blocks entered / left (used by the harness to detect
	// completed janitor cycles).
	Blocks int
	Wakes  int

	// LastWakeNs / LastBlockNs: bubble clock (unix ns) when the task last left / entered an
	// external block. WakeSeqs / BlockSeqs: event sequence numbers of "scheduled for the first
	// time after a wake-up" and "about to block" (one pair per janitor cycle).
	LastWakeNs  int64
	LastBlockNs int64
	WakeSeqs    []uint64
	BlockSeqs   []uint64
	justWoke    bool

	Panic     interface{}
	PanicInfo string

	clock []uint32 // vector clock (C16 detector), index = task index
	idx   int
}

// Cand is one schedulable candidate shown to the Chooser.
type Cand struct {
	ID     string
	At     string
	Daemon bool
}

// Chooser decides which of the candidates (sorted by ID) runs next.
type Chooser interface {
	Choose(step int, cands []Cand) int
}

// Verdict is the reason Run returned.
type Verdict int

// Verdicts.
const (
	Quiescent Verdict = iota // every non-daemon task is done, every daemon is idle in its select (or done)
	Stuck                    // nothing can run, no timer pending for a non-daemon task, but some task has not finished
	Watchdog                 // step or simulated-time cap reached (internal limit, not a property verdict)
)

func (v Verdict) String() string {
	switch v {
	case Quiescent:
		return "quiescent"
	case Stuck:
		return "stuck"
	default:
		return "watchdog"
	}
}

// Config configures one simulated run.
type Config struct {
	Wait       func() // synctest.Wait
	Chooser    Chooser
	TickNs     int64 // simulated nanoseconds added before every scheduling step (>=1)
	MaxSteps   int
	NoFastPath bool // park at every fine-grained yield even if nothing else could run
	Trace      bool // keep a human-readable event log

	// Jitter returns the value rand.Float64() would have returned in Trait.TTL.
	Jitter func() float64
	// Perm permutes n items (map iteration order); nil means identity (sorted order).
	Perm func(n int) []int
	// Race enables the happens-before detector (C16).
	Race bool
}

type lockState struct {
	writer  *Task
	readers map[*Task]int
}

// Sim is one simulated run.
type Sim struct {
	cfg Config

	mu    sync.Mutex // guards task states: woken tasks re-park concurrently with the running task
	tasks []*Task
	byID  map[string]*Task
	cur   *Task

	locks map[interface{}]*lockState

	notify chan struct{}
	killCh chan struct{}
	dead   int32

	Steps    int
	seq      uint64
	start    time.Time
	rootKids int

	hash  uint64
	trace []string

	SchedSig uint64 // hash of (task, yield label) sequence = schedule signature
	Choices  []int  // recorded choice indices (only steps with >1 candidates are recorded)
	NCands   []int

	StuckInfo string

	race *raceState
}

var active atomic.Value // *Sim or (*Sim)(nil)

func cur() *Sim {
	v := active.Load()
	if v == nil {
		return nil
	}

	return v.(*Sim)
}

// Active reports whether a simulation is running in this process.
func Active() bool { return cur() != nil }

// New creates a simulation and makes it the active one. Must be called inside the bubble.
func New(cfg Config) *Sim {
	if cfg.TickNs <= 0 {
		cfg.TickNs = 100
	}

	if cfg.MaxSteps == 0 {
		cfg.MaxSteps = 200000
	}

	s := &Sim{
		cfg:    cfg,
		byID:   map[string]*Task{},
		locks:  map[interface{}]*lockState{},
		notify: make(chan struct{}, 1),
		killCh: make(chan struct{}),
		start:  time.Now(),
		hash:   14695981039346656037,
	}
	s.SchedSig = 14695981039346656037

	if cfg.Race {
		s.race = newRaceState()
	}

	active.Store(s)

	return s
}

// Close deactivates the simulation (after Teardown).
func (s *Sim) Close() {
	active.Store((*Sim)(nil))
}

// NowNs returns simulated nanoseconds since the start of the run.
func (s *Sim) NowNs() int64 { return int64(time.Since(s.start)) }

// NextSeq returns the next global event sequence number.
func (s *Sim) NextSeq() uint64 {
	return atomic.AddUint64(&s.seq, 1)
}

// Seq returns the current global event sequence number.
func (s *Sim) Seq() uint64 { return atomic.LoadUint64(&s.seq) }

func (s *Sim) mix(str string) {
	h := s.hash
	for i := 0; i < len(str); i++ {
		h ^= uint64(str[i])
		h *= 1099511628211
	}

	h ^= 0xff
	h *= 1099511628211
	s.hash = h
}

// Logf records an event: it always feeds the replay hash and is kept as text when tracing.
// It must only be called by the running task or by the root while everything is parked.
func (s *Sim) Logf(format string, args ...interface{}) {
	msg := fmt.Sprintf(format, args...)
	s.mu.Lock()
	s.mix(msg)

	if s.cfg.Trace {
		who := "root"
		if s.cur != nil {
			who = s.cur.ID
		}

		s.trace = append(s.trace, fmt.Sprintf("%06d t=%d [%s] %s", s.Seq(), s.NowNs(), who, msg))
	}
	s.mu.Unlock()
}

// Hash returns the replay hash of everything logged and scheduled so far.
func (s *Sim) Hash() uint64 { return s.hash }

// TraceLines returns the recorded event log.
func (s *Sim) TraceLines() []string { return s.trace }

// Cur returns the running task (nil in root context).
func (s *Sim) Cur() *Task { return s.cur }

// CurID returns the running task's id or "root".
func (s *Sim) CurID() string {
	if s.cur == nil {
		return "root"
	}

	return s.cur.ID
}

// Tasks returns all tasks created so far, in creation order.
func (s *Sim) Tasks() []*Task { return s.tasks }

// TaskByID finds a task.
func (s *Sim) TaskByID(id string) *Task { return s.byID[id] }

// Idle reports whether the task is blocked in a library select (janitor idle) or done.
func (t *Task) Idle() bool {
	t.s.mu.Lock()
	defer t.s.mu.Unlock()

	return t.state == Done || (t.state == Running && t.block == BlockSelect)
}

// IsDone reports whether the task has finished.
func (t *Task) IsDone() bool {
	t.s.mu.Lock()
	defer t.s.mu.Unlock()

	return t.state == Done
}

// Describe renders the task's scheduler state.
func (t *Task) Describe() string {
	switch t.state {
	case Done:
		return t.ID + ":done"
	case Parked:
		if t.wantLock != nil {
			return fmt.Sprintf("%s:parked@%s(wants-lock)", t.ID, t.at)
		}

		if t.cond != nil {
			return fmt.Sprintf("%s:parked@%s(cond)", t.ID, t.at)
		}

		return fmt.Sprintf("%s:parked@%s", t.ID, t.at)
	default:
		switch t.block {
		case BlockChan:
			return fmt.Sprintf("%s:blocked-chan@%s", t.ID, t.blockLabel)
		case BlockSelect:
			return fmt.Sprintf("%s:idle-select@%s", t.ID, t.blockLabel)
		case BlockSleep:
			return fmt.Sprintf("%s:sleeping", t.ID)
		}

		return t.ID + ":running"
	}
}

func (s *Sim) newTask(id, label string, daemon bool) *Task {
	t := &Task{ID: id, Label: label, Daemon: daemon, s: s, state: Parked, at: "birth", wake: make(chan struct{})}

	s.mu.Lock()
	if s.byID[id] != nil {
		s.mu.Unlock()
		panic("zzverifsim: duplicate task id " + id)
	}

	t.idx = len(s.tasks)
	s.tasks = append(s.tasks, t)
	s.byID[id] = t
	s.mu.Unlock()

	if s.race != nil {
		s.race.fork(s, s.cur, t)
	}

	return t
}

type killed struct{}

func (s *Sim) start1(t *Task, fn func()) {
	go func() {
		defer func() {
			r := recover()
			if r != nil {
				if _, ok := r.(killed); !ok {
					buf := make([]byte, 4096)
					buf = buf[:runtime.Stack(buf, false)]
					t.Panic = r
					t.PanicInfo = fmt.Sprintf("%v\n%s", r, buf)
				}
			}

			s.mu.Lock()
			t.state = Done
			t.block = BlockNone
			s.mu.Unlock()
		}()

		select {
		case <-t.wake:
		case <-s.killCh:
			return
		}

		fn()
	}()
}

// Spawn creates a harness (client) task. Root context only.
func (s *Sim) Spawn(id string, fn func()) *Task {
	t := s.newTask(id, "client", false)
	s.start1(t, fn)

	return t
}

// Go replaces a `go` statement of the library.
func Go(label string, fn func()) {
	s := cur()
	if s == nil || atomic.LoadInt32(&s.dead) != 0 {
		go fn()

		return
	}

	parent := s.cur

	var id string

	daemon := false

	if parent == nil {
		s.rootKids++
		id = fmt.Sprintf("root/%s#%d", label, s.rootKids)
		daemon = true
	} else {
		parent.children++
		id = fmt.Sprintf("%s/%s#%d", parent.ID, label, parent.children)
		daemon = parent.Daemon
	}

	t := s.newTask(id, label, daemon)
	s.start1(t, fn)

	if parent != nil {
		s.yield(parent, "go:"+label, true)
	}
}

func (s *Sim) die() {
	panic(killed{})
}

// park blocks the calling task until the scheduler wakes it.
func (s *Sim) park(t *Task) {
	select {
	case <-t.wake:
	case <-s.killCh:
		s.die()
	}
}

// othersCanRun reports whether any other task could run without the clock advancing.
// Caller holds s.mu.
func (s *Sim) othersCanRun(t *Task) bool {
	for _, o := range s.tasks {
		if o == t || o.state == Done {
			continue
		}

		if o.state == Running && (o.block == BlockSleep || o.block == BlockSelect) {
			continue
		}

		return true
	}

	return false
}

func (s *Sim) yield(t *Task, label string, fine bool) {
	if atomic.LoadInt32(&s.dead) != 0 {
		return
	}

	s.mu.Lock()

	if fine && !s.cfg.NoFastPath && !s.othersCanRun(t) {
		s.mu.Unlock()

		return
	}

	t.state = Parked
	t.at = label
	t.fine = fine
	s.mu.Unlock()
	s.park(t)
}

// Yield is a coarse yield point (harness call-outs, operation boundaries).
func Yield(label string) {
	s := cur()
	if s == nil || s.cur == nil {
		return
	}

	s.yield(s.cur, label, false)
}

// YieldFine is a fine-grained yield point (skipped when nothing else could run).
func YieldFine(label string) {
	s := cur()
	if s == nil || s.cur == nil {
		return
	}

	s.yield(s.cur, label, true)
}

// WaitUntil parks the task until cond (evaluated by the scheduler while every task is
// parked) is true.
func WaitUntil(label string, cond func() bool) {
	s := cur()
	if s == nil || s.cur == nil {
		panic("zzverifsim.WaitUntil outside a task")
	}

	t := s.cur
	s.mu.Lock()
	t.state = Parked
	t.at = label
	t.fine = false
	t.cond = cond
	s.mu.Unlock()
	s.park(t)
}

// BlockTok is returned by BeforeBlock and handed to AfterBlock.
type BlockTok struct {
	t *Task
	s *Sim
}

// Kill returns a channel that is closed when the run is torn down; the instrumenter adds it
// as an extra case to the library's select statements.
func (b BlockTok) Kill() <-chan struct{} {
	if b.s == nil {
		return nil
	}

	return b.s.killCh
}

// Die terminates the calling task during teardown.
func (b BlockTok) Die() {
	if b.s != nil {
		b.s.die()
	}
}

// BeforeBlock announces that the running task is about to block outside the simulator.
func BeforeBlock(label string, kind BlockKind) BlockTok {
	s := cur()
	if s == nil || s.cur == nil || atomic.LoadInt32(&s.dead) != 0 {
		return BlockTok{}
	}

	t := s.cur
	s.mu.Lock()
	t.block = kind
	t.blockLabel = label
	t.Blocks++
	t.LastBlockNs = time.Now().UnixNano()
	t.BlockSeqs = append(t.BlockSeqs, s.NextSeq())
	s.mu.Unlock()

	return BlockTok{t: t, s: s}
}

// AfterBlock re-parks a task that was woken from an external block. It may run
// concurrently with the task that caused the wake-up, so it touches nothing but its own
// state.
func AfterBlock(tok BlockTok) {
	if tok.t == nil {
		return
	}

	s, t := tok.s, tok.t
	if atomic.LoadInt32(&s.dead) != 0 {
		s.die()
	}

	s.mu.Lock()
	t.block = BlockNone
	t.state = Parked
	t.at = "woke:" + t.blockLabel
	t.fine = false
	t.Wakes++
	t.LastWakeNs = time.Now().UnixNano()
	t.justWoke = true
	s.mu.Unlock()

	select {
	case s.notify <- struct{}{}:
	default:
	}

	s.park(t)
}

// Recv replaces a blocking channel receive statement of the library.
func Recv(label string, ch <-chan struct{}) {
	tok := BeforeBlock(label, BlockChan)
	if tok.t == nil {
		<-ch

		return
	}

	select {
	case <-ch:
	case <-tok.s.killCh:
		tok.s.die()
	}

	AfterBlock(tok)

	// Only after being re-scheduled: until then the closing task is still running.
	if tok.s.race != nil {
		tok.s.race.acquire(tok.t, chanKey{ch})
	}
}

type chanKey struct{ ch interface{} }

// Close replaces close(ch) so that the detector sees the release edge.
func Close(ch chan struct{}) {
	s := cur()
	if s != nil && s.cur != nil && s.race != nil {
		s.race.release(s.cur, chanKey{(<-chan struct{})(ch)})
	}

	close(ch)
}

// Sleep sleeps on the simulated clock (harness only).
func Sleep(d time.Duration) {
	s := cur()
	if s == nil || s.cur == nil {
		time.Sleep(d)

		return
	}

	tok := BeforeBlock("sleep", BlockSleep)

	select {
	case <-time.After(d):
	case <-s.killCh:
		s.die()
	}

	AfterBlock(tok)
}

func (s *Sim) lockFree(l interface{}, kind LockKind, t *Task) bool {
	st := s.locks[l]
	if st == nil {
		return true
	}

	if st.writer != nil {
		return false
	}

	if kind == LockR {
		return true
	}

	return len(st.readers) == 0
}

func (s *Sim) acquire(l interface{}, kind LockKind, t *Task) {
	st := s.locks[l]
	if st == nil {
		st = &lockState{readers: map[*Task]int{}}
		s.locks[l] = st
	}

	if kind == LockW {
		st.writer = t
	} else {
		st.readers[t]++
	}
}

func (s *Sim) releaseLock(l interface{}, kind LockKind, t *Task) {
	st := s.locks[l]
	if st == nil {
		return
	}

	if kind == LockW {
		st.writer = nil
	} else {
		st.readers[t]--
		if st.readers[t] <= 0 {
			delete(st.readers, t)
		}
	}

	if st.writer == nil && len(st.readers) == 0 {
		delete(s.locks, l)
	}
}

// Locker is what the instrumented code passes for a mutex (sync.Mutex, sync.RWMutex or a
// struct embedding one).
type Locker interface {
	Lock()
	Unlock()
	TryLock() bool
}

// RLocker is the read side of an RWMutex.
type RLocker interface {
	RLock()
	RUnlock()
	TryRLock() bool
}

func (s *Sim) simLock(l interface{}, kind LockKind, label string) bool {
	t := s.cur
	if t == nil {
		// Root context: everything is parked or idle; the lock must be free.
		s.mu.Lock()
		free := s.lockFree(l, kind, nil)
		s.mu.Unlock()

		if !free {
			panic("zzverifsim: root context found lock held: " + label)
		}

		return true
	}

	s.mu.Lock()
	if !s.cfg.NoFastPath && !s.othersCanRun(t) && s.lockFree(l, kind, t) {
		s.acquire(l, kind, t)
		s.mu.Unlock()

		return true
	}

	t.state = Parked
	t.at = label
	t.fine = true
	t.wantLock = l
	t.wantKind = kind
	s.mu.Unlock()
	s.park(t)
	// The scheduler granted the lock before waking us.
	return true
}

// MuLock replaces X.Lock().
func MuLock(label string, l Locker) {
	s := cur()
	if s == nil {
		l.Lock()

		return
	}

	if atomic.LoadInt32(&s.dead) != 0 {
		if !l.TryLock() {
			runtime.Goexit()
		}

		return
	}

	s.simLock(l, LockW, label)

	if !l.TryLock() {
		s.blockForever(label)
		l.Lock()
	}

	if s.race != nil && s.cur != nil {
		s.race.acquire(s.cur, l)
	}
}

// neverFree is the key of a lock of the simulator's table that is held by nobody who could release it.
type neverFree struct{}

// blockForever: the lock table says the lock is free (no task of this run holds it) but the real lock is taken.
// No task can ever release it - what the task holds is a COPY of a mutex that was locked when it was copied (or a
// mutex locked before the run began). A real program would hang right here; in the simulation the task is parked
// on a lock that is never granted, so the run ends as stuck instead of blocking the worker outside the scheduler.
func (s *Sim) blockForever(label string) {
	t := s.cur
	if t == nil {
		panic("zzverifsim: root context: real lock is taken although the lock table says it is free: " + label)
	}

	s.mu.Lock()

	key := neverFree{}
	if s.locks[key] == nil {
		s.locks[key] = &lockState{readers: map[*Task]int{}, writer: &Task{}}
	}

	s.mu.Unlock()

	s.simLock(key, LockW, label+"(real-lock-taken-by-nobody:copied-mutex?)")
}

// MuTryLock replaces X.TryLock(): a scheduling point, then the attempt against the simulator's lock table
// (which mirrors the real lock exactly, because only one task runs at a time).
func MuTryLock(label string, l Locker) bool {
	s := cur()
	if s == nil || atomic.LoadInt32(&s.dead) != 0 {
		return l.TryLock()
	}

	return s.simTryLock(l, LockW, label, func() bool { return l.TryLock() })
}

// MuTryRLock replaces X.TryRLock().
func MuTryRLock(label string, l RLocker) bool {
	s := cur()
	if s == nil || atomic.LoadInt32(&s.dead) != 0 {
		return l.TryRLock()
	}

	return s.simTryLock(l, LockR, label, func() bool { return l.TryRLock() })
}

func (s *Sim) simTryLock(l interface{}, kind LockKind, label string, real func() bool) bool {
	t := s.cur
	if t != nil {
		s.yield(t, label, true) // whether the lock is free depends on who ran before this point
	}

	s.mu.Lock()
	free := s.lockFree(l, kind, t)

	if free && t != nil {
		s.acquire(l, kind, t)
	}
	s.mu.Unlock()

	if !free {
		return false
	}

	if !real() {
		panic("zzverifsim: lock table says free but the real lock is taken: " + label)
	}

	if t != nil && s.race != nil {
		s.race.acquire(t, l)
	}

	return true
}

// MuUnlock replaces X.Unlock().
func MuUnlock(label string, l Locker) {
	s := cur()
	if s == nil || atomic.LoadInt32(&s.dead) != 0 {
		l.Unlock()

		return
	}

	if s.race != nil && s.cur != nil {
		s.race.release(s.cur, l)
	}

	l.Unlock()

	t := s.cur
	s.mu.Lock()
	s.releaseLock(l, LockW, t)
	s.mu.Unlock()

	if t != nil {
		s.yield(t, label, true)
	}
}

// MuUnlockQuiet releases a lock taken with MuLock without making the release a scheduling point. For the
// harness's own observation hooks: what they read under the lock must still be true when the caller acts on it.
func MuUnlockQuiet(l Locker) {
	s := cur()
	if s == nil || atomic.LoadInt32(&s.dead) != 0 {
		l.Unlock()

		return
	}

	if s.race != nil && s.cur != nil {
		s.race.release(s.cur, l)
	}

	l.Unlock()

	t := s.cur
	s.mu.Lock()
	s.releaseLock(l, LockW, t)
	s.mu.Unlock()
}

// MuRLock replaces X.RLock().
func MuRLock(label string, l RLocker) {
	s := cur()
	if s == nil {
		l.RLock()

		return
	}

	if atomic.LoadInt32(&s.dead) != 0 {
		if !l.TryRLock() {
			runtime.Goexit()
		}

		return
	}

	s.simLock(l, LockR, label)

	if !l.TryRLock() {
		s.blockForever(label)
		l.RLock()
	}

	if s.race != nil && s.cur != nil {
		s.race.acquire(s.cur, l)
	}
}

// MuRUnlock replaces X.RUnlock().
func MuRUnlock(label string, l RLocker) {
	s := cur()
	if s == nil || atomic.LoadInt32(&s.dead) != 0 {
		l.RUnlock()

		return
	}

	if s.race != nil && s.cur != nil {
		s.race.releaseRead(s.cur, l)
	}

	l.RUnlock()

	t := s.cur
	s.mu.Lock()
	s.releaseLock(l, LockR, t)
	s.mu.Unlock()

	if t != nil {
		s.yield(t, label, true)
	}
}

func (s *Sim) wait() {
	s.cfg.Wait()
}

// runnable returns the candidates sorted by task id. Caller must have called wait().
func (s *Sim) runnable() []*Task {
	var out []*Task

	s.mu.Lock()
	for _, t := range s.tasks {
		if t.state != Parked {
			continue
		}

		if t.wantLock != nil && !s.lockFree(t.wantLock, t.wantKind, t) {
			continue
		}

		out = append(out, t)
	}
	s.mu.Unlock()

	// Conditions are evaluated outside s.mu: they may inspect task states.
	k := 0

	for _, t := range out {
		if t.cond != nil && !t.cond() {
			continue
		}

		out[k] = t
		k++
	}

	out = out[:k]

	sort.Slice(out, func(i, j int) bool { return out[i].ID < out[j].ID })

	return out
}

// Run schedules tasks until quiescence, a stuck state or the watchdog.
func (s *Sim) Run() Verdict {
	if s.cur != nil {
		panic("zzverifsim: Run called from a task")
	}

	for {
		s.wait()
		s.cur = nil

		cands := s.runnable()
		if len(cands) > 0 {
			// Clock tick, then look again: a timer may have made more tasks runnable.
			time.Sleep(time.Duration(s.cfg.TickNs))
			s.wait()
			cands = s.runnable()
		}

		if len(cands) == 0 {
			sleeping, pending := false, false
			condWait, timers := false, false

			s.mu.Lock()
			for _, t := range s.tasks {
				if t.state == Done {
					continue
				}

				if t.state == Running && t.block == BlockSleep {
					sleeping = true
				}

				if t.state == Running && t.block == BlockSelect {
					timers = true
				}

				if t.state == Parked && t.cond != nil {
					condWait = true
				}

				if t.Daemon && t.state == Running && t.block == BlockSelect {
					continue
				}

				pending = true
			}
			s.mu.Unlock()

			if sleeping || (condWait && timers) {
				// Block the root: the bubble clock jumps to the next timer.
				<-s.notify

				continue
			}

			if !pending {
				return Quiescent
			}

			s.StuckInfo = s.describeAll()

			return Stuck
		}

		s.Steps++
		if s.Steps > s.cfg.MaxSteps {
			s.StuckInfo = "step cap reached: " + s.describeAll()

			return Watchdog
		}

		idx := 0

		if len(cands) > 1 {
			cs := make([]Cand, len(cands))
			for i, t := range cands {
				cs[i] = Cand{ID: t.ID, At: t.at, Daemon: t.Daemon}
			}

			idx = s.cfg.Chooser.Choose(s.Steps, cs)
			if idx < 0 || idx >= len(cands) {
				idx = 0
			}

			s.Choices = append(s.Choices, idx)
			s.NCands = append(s.NCands, len(cands))
		}

		t := cands[idx]

		h := s.SchedSig
		for i := 0; i < len(t.ID); i++ {
			h = (h ^ uint64(t.ID[i])) * 1099511628211
		}

		for i := 0; i < len(t.at); i++ {
			h = (h ^ uint64(t.at[i])) * 1099511628211
		}

		s.SchedSig = (h ^ 0xfe) * 1099511628211

		s.mu.Lock()
		s.mix(t.ID)
		s.mix(t.at)

		if s.cfg.Trace {
			s.trace = append(s.trace, fmt.Sprintf("%06d t=%d   step %d -> %s @%s (of %d)", s.Seq(), s.NowNs(), s.Steps, t.ID, t.at, len(cands)))
		}

		if t.wantLock != nil {
			s.acquire(t.wantLock, t.wantKind, t)
			t.wantLock = nil
		}

		if t.justWoke {
			t.justWoke = false
			t.WakeSeqs = append(t.WakeSeqs, s.NextSeq())
		}

		t.cond = nil
		t.state = Running
		s.cur = t
		s.mu.Unlock()

		t.wake <- struct{}{}
	}
}

func (s *Sim) describeAll() string {
	s.mu.Lock()
	defer s.mu.Unlock()

	out := ""

	for _, t := range s.tasks {
		if t.state == Done {
			continue
		}

		if out != "" {
			out += " "
		}

		out += t.Describe()
	}

	return out
}

// SettleRoot must be called by the root after Run returned and before it touches library
// state itself: it clears the current-task marker so that root-context calls pass through.
func (s *Sim) SettleRoot() {
	s.wait()
	s.mu.Lock()
	s.cur = nil
	s.mu.Unlock()

	if s.race != nil {
		s.race.joinRoot(s)
	}
}

// IsKilled reports whether a recovered panic value is the simulator's teardown signal; harness
// code that recovers panics must re-panic with it.
func IsKilled(r interface{}) bool {
	_, ok := r.(killed)

	return ok
}

// Advance lets simulated time pass (root context): daemons (janitors) run their cycles.
func (s *Sim) Advance(d time.Duration) Verdict {
	s.SettleRoot()
	s.rootKids++
	s.Spawn(fmt.Sprintf("zzsleep#%d", s.rootKids), func() { Sleep(d) })

	v := s.Run()
	s.SettleRoot()

	return v
}

// Teardown kills whatever is still alive and waits until every task goroutine has exited.
func (s *Sim) Teardown() (leaked int) {
	defer dropPools(s)

	s.wait()
	atomic.StoreInt32(&s.dead, 1)
	close(s.killCh)
	s.wait()

	s.mu.Lock()
	for _, t := range s.tasks {
		if t.state != Done {
			leaked++
		}
	}
	s.mu.Unlock()

	return leaked
}

// Float64 replaces rand.Float64() in Trait.TTL.
func Float64(fallback func() float64) float64 {
	s := cur()
	if s == nil || s.cfg.Jitter == nil {
		return fallback()
	}

	return s.cfg.Jitter()
}

// HashString is a helper for signatures.
func HashString(parts ...string) uint64 {
	h := fnv.New64a()
	for _, p := range parts {
		_, _ = h.Write([]byte(p))
		_, _ = h.Write([]byte{0})
	}

	return h.Sum64()
}
