package zzverifsim

import (
	"fmt"
	"reflect"
	"sort"
	"unsafe"
)

// Happens-before detector (C16). Harness hand-offs between tasks create no edge: only the
// synchronisation the library itself performs (mutexes, sync.Map operations, atomics, channel
// close/receive, goroutine start) orders accesses. Two conflicting accesses that are not
// ordered are a data race in every real execution in which both happen.

// RaceReport is one unordered conflicting pair.
type RaceReport struct {
	PosA, PosB     string
	WriteA, WriteB bool
	TaskA, TaskB   string
	Map            bool
}

// Key returns the unordered pair of source positions.
func (r RaceReport) Key() string {
	a, b := stable(r.PosA), stable(r.PosB)
	if a > b {
		a, b = b, a
	}

	return a + " <-> " + b
}

func (r RaceReport) String() string {
	k := "field"
	if r.Map {
		k = "map"
	}

	return fmt.Sprintf("%s race: %s(%s,w=%v) vs %s(%s,w=%v)", k, r.PosA, r.TaskA, r.WriteA, r.PosB, r.TaskB, r.WriteB)
}

type epoch struct {
	tid int
	clk uint32
	pos string
}

type shadow struct {
	w     epoch
	hasW  bool
	reads []epoch
	isMap bool

	// atomic accesses: they never conflict with each other, but an atomic store conflicts
	// with an unordered plain access and an atomic load with an unordered plain store
	aw     epoch
	hasAW  bool
	areads []epoch
}

type raceState struct {
	sync    map[interface{}][]uint32
	shadow  map[unsafe.Pointer]*shadow
	root    []uint32
	reports map[string]RaceReport
}

func newRaceState() *raceState {
	return &raceState{
		sync:    map[interface{}][]uint32{},
		shadow:  map[unsafe.Pointer]*shadow{},
		reports: map[string]RaceReport{},
	}
}

func join(dst, src []uint32) []uint32 {
	for len(dst) < len(src) {
		dst = append(dst, 0)
	}

	for i, v := range src {
		if v > dst[i] {
			dst[i] = v
		}
	}

	return dst
}

func (t *Task) tick() {
	for len(t.clock) <= t.idx {
		t.clock = append(t.clock, 0)
	}

	t.clock[t.idx]++
}

func (r *raceState) fork(s *Sim, parent, child *Task) {
	if parent == nil {
		child.clock = append([]uint32(nil), r.root...)
	} else {
		child.clock = append([]uint32(nil), parent.clock...)
		parent.tick()
	}

	child.tick()
}

// joinRoot makes everything that happened so far happen-before later root actions.
func (r *raceState) joinRoot(s *Sim) {
	for _, t := range s.tasks {
		r.root = join(r.root, t.clock)
	}
}

func (r *raceState) acquire(t *Task, key interface{}) {
	if c, ok := r.sync[key]; ok {
		t.clock = join(t.clock, c)
	}
}

func (r *raceState) release(t *Task, key interface{}) {
	r.sync[key] = join(r.sync[key], t.clock)
	t.tick()
}

func (r *raceState) releaseRead(t *Task, key interface{}) {
	r.release(t, key)
}

func (r *raceState) ordered(e epoch, t *Task) bool {
	if e.tid == t.idx {
		return true
	}

	if e.tid == -1 {
		// root access: ordered iff the task was forked after it (root clock index -1 is
		// not tracked; root only acts while every task is parked and joins afterwards).
		return true
	}

	return e.tid < len(t.clock) && e.clk <= t.clock[e.tid]
}

func (r *raceState) report(s *Sim, a epoch, aw bool, t *Task, pos string, w bool, isMap bool) {
	rep := RaceReport{
		PosA: a.pos, WriteA: aw, TaskA: s.tasks[a.tid].ID,
		PosB: pos, WriteB: w, TaskB: t.ID, Map: isMap,
	}
	if _, ok := r.reports[rep.Key()]; !ok {
		r.reports[rep.Key()] = rep
	}
}

func (r *raceState) access(s *Sim, t *Task, p unsafe.Pointer, write bool, pos string, isMap bool) {
	sh := r.shadow[p]
	if sh == nil {
		sh = &shadow{isMap: isMap}
		r.shadow[p] = sh
	}

	t.tickIfZero()

	if sh.hasW && !r.ordered(sh.w, t) {
		r.report(s, sh.w, true, t, pos, write, isMap)
	}

	if sh.hasAW && !r.ordered(sh.aw, t) {
		r.report(s, sh.aw, true, t, pos, write, isMap)
	}

	me := epoch{tid: t.idx, clk: t.clock[t.idx], pos: pos}

	if write {
		for _, rd := range sh.reads {
			if !r.ordered(rd, t) {
				r.report(s, rd, false, t, pos, true, isMap)
			}
		}

		for _, rd := range sh.areads {
			if !r.ordered(rd, t) {
				r.report(s, rd, false, t, pos, true, isMap)
			}
		}

		sh.w = me
		sh.hasW = true
		sh.reads = sh.reads[:0]

		return
	}

	for i := range sh.reads {
		if sh.reads[i].tid == t.idx {
			sh.reads[i] = me

			return
		}
	}

	sh.reads = append(sh.reads, me)
}

func (t *Task) tickIfZero() {
	if len(t.clock) <= t.idx || t.clock[t.idx] == 0 {
		t.tick()
	}
}

// Access records a plain (non-atomic) memory access by the running task.
func Access(p unsafe.Pointer, write bool, pos string) {
	s := cur()
	if s == nil || s.race == nil || s.cur == nil || p == nil {
		return
	}

	s.race.access(s, s.cur, p, write, pos, false)
}

// AccessMap records an operation on a Go map (address = the map header).
func AccessMap(p unsafe.Pointer, write bool, pos string) {
	s := cur()
	if s == nil || s.race == nil || s.cur == nil || p == nil {
		return
	}

	s.race.access(s, s.cur, p, write, pos, true)
}

// Atomic records a sync/atomic operation: it is checked against unordered plain accesses of the
// same address (mixing atomic and plain access is a data race), then acts as acquire + release.
func Atomic(p unsafe.Pointer, store bool, pos string) {
	s := cur()
	if s == nil || s.race == nil || s.cur == nil || p == nil {
		return
	}

	t := s.cur
	r := s.race
	r.acquire(t, p)

	sh := r.shadow[p]
	if sh == nil {
		sh = &shadow{}
		r.shadow[p] = sh
	}

	t.tickIfZero()

	if sh.hasW && !r.ordered(sh.w, t) {
		r.report(s, sh.w, true, t, pos, store, false)
	}

	me := epoch{tid: t.idx, clk: t.clock[t.idx], pos: pos}

	if store {
		for _, rd := range sh.reads {
			if !r.ordered(rd, t) {
				r.report(s, rd, false, t, pos, true, false)
			}
		}

		sh.aw, sh.hasAW = me, true
		sh.areads = sh.areads[:0]
	} else {
		found := false

		for i := range sh.areads {
			if sh.areads[i].tid == t.idx {
				sh.areads[i] = me
				found = true
			}
		}

		if !found {
			sh.areads = append(sh.areads, me)
		}
	}

	r.release(t, p)
}

// SyncOp records an operation on a synchronising object (sync.Map): acquire + release.
func SyncOp(key interface{}) {
	s := cur()
	if s == nil || s.race == nil || s.cur == nil {
		return
	}

	s.race.acquire(s.cur, key)
	s.race.release(s.cur, key)
}

// RaceReports returns the distinct racing pairs found so far, sorted.
func (s *Sim) RaceReports() []RaceReport {
	if s.race == nil {
		return nil
	}

	keys := make([]string, 0, len(s.race.reports))
	for k := range s.race.reports {
		keys = append(keys, k)
	}

	sort.Strings(keys)

	out := make([]RaceReport, 0, len(keys))
	for _, k := range keys {
		out = append(out, s.race.reports[k])
	}

	return out
}

// R records a read of *p and returns p (inserted around field reads by the instrumenter).
func R[T any](p *T, pos string) *T {
	Access(unsafe.Pointer(p), false, pos)

	return p
}

// W records a write of *p and returns p.
func W[T any](p *T, pos string) *T {
	Access(unsafe.Pointer(p), true, pos)

	return p
}

// MR records a read operation on a Go map.
func MR[K comparable, V any](m map[K]V, pos string) map[K]V {
	AccessMap(MapPtr(m), false, pos)

	return m
}

// MW records a write operation on a Go map.
func MW[K comparable, V any](m map[K]V, pos string) map[K]V {
	AccessMap(MapPtr(m), true, pos)

	return m
}

// AtomicPtr records a sync/atomic operation on *p and returns p.
func AtomicPtr[T any](p *T, store bool, pos string) *T {
	YieldFine("atomic")
	Atomic(unsafe.Pointer(p), store, pos)

	return p
}

// ReadAll records a plain read of every field of the struct v points to (v may be an interface
// holding such a pointer) and returns v: it models code that copies or reflects over a whole
// entry, e.g. encoding/gob in Dump or a value-receiver method called through the pointer.
func ReadAll(v interface{}, pos string) interface{} {
	s := cur()
	if s == nil || s.race == nil || s.cur == nil || v == nil {
		return v
	}

	rv := reflect.ValueOf(v)
	if rv.Kind() != reflect.Ptr || rv.IsNil() || rv.Elem().Kind() != reflect.Struct {
		return v
	}

	el := rv.Elem()
	for i := 0; i < el.NumField(); i++ {
		f := el.Field(i)
		if f.CanAddr() {
			Access(unsafe.Pointer(f.UnsafeAddr()), false, pos+":"+el.Type().Field(i).Name)
		}
	}

	return v
}

// stable strips "file:line|" from an access label, leaving "Type.Func:field" which does not
// move when unrelated lines are edited.
func stable(pos string) string {
	for i := 0; i < len(pos); i++ {
		if pos[i] == '|' {
			return pos[i+1:]
		}
	}

	return pos
}

func recordAppend[T any](pos string, s []T, n int) {
	sim := cur()
	if sim == nil || sim.race == nil || sim.cur == nil {
		return
	}

	full := s[:cap(s)]

	if len(s)+n <= cap(s) {
		// appended in place: the spare elements of the shared backing array are written
		for i := len(s); i < len(s)+n; i++ {
			Access(unsafe.Pointer(&full[i]), true, pos)
		}

		return
	}

	// reallocation: the old elements are read (copied)
	for i := range s {
		Access(unsafe.Pointer(&s[i]), false, pos)
	}
}

// Append replaces append(s, vals...) with explicit elements (race mode).
func Append[T any](pos string, s []T, vals ...T) []T {
	recordAppend(pos, s, len(vals))

	return append(s, vals...)
}

// AppendSlice replaces append(s, t...) (race mode).
func AppendSlice[T any](pos string, s []T, t []T) []T {
	recordAppend(pos, s, len(t))

	for i := range t {
		Access(unsafe.Pointer(&t[i]), false, pos)
	}

	return append(s, t...)
}

// ReadAllP is ReadAll for a typed pointer (inserted where the library copies a whole struct
// through a pointer: value-receiver method calls and *p as a value).
func ReadAllP[T any](p *T, pos string) *T {
	if p != nil {
		ReadAll(p, pos)
	}

	return p
}

// AtomicYield makes a sync/atomic operation a fine-grained yield point and returns p.
func AtomicYield[T any](p *T) *T {
	YieldFine("atomic")

	return p
}
