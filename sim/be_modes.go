package sim

import (
	"bytes"
	"context"
	"fmt"
	"math"
	"math/rand/v2"
	"sort"
	"time"

	"github.com/bool64/cache"
	zs "github.com/bool64/cache/zzverifsim"
)

// ---------------------------------------------------------------------------------------
// C10: expiry instants lie within the documented TTL bounds. Root-driven: the root is the only
// code that runs, so every clock read inside the library equals the root's own.

func init() {
	beModes["ttl"] = (*beRun).modeTTL
	beModes["janitor"] = (*beRun).modeJanitor
	beModes["evict"] = (*beRun).modeEvict

	beOracles["C11"] = (*beRun).oracleC11Conc
	gens["C10"] = genC10
	gens["C11"] = genC11
	gens["C12"] = genC12
}

func genC10(r *rand.Rand, _ int, _ string) *Scenario {
	sc := genBEBase(r, "ttl")
	be := sc.BE
	sc.JitterMode = pick(r, "zero", "half", "max", "prng", "prng")

	years := 365 * 24 * 3600 * sec
	cfgTTLs := []int64{0, -1, 1, 7, 999, ms, sec, 17 * sec, 3600 * sec, 24 * 3600 * sec, years, 10 * years, -2, -999, -ms, -sec, -24 * 3600 * sec, -years}
	// "keep it forever" spelled as a very long TTL: the expiry instant lies beyond what a unix-nanosecond
	// timestamp can hold
	forever := []int64{250 * years, 280 * years, math.MaxInt64, math.MaxInt64 - 1, math.MaxInt64 / 2}

	if chance(r, 0.08) {
		cfgTTLs = forever
	}
	be.Cfg = BEConfig{TTLNs: pick(r, cfgTTLs...), Jitter: pick(r, -1.0, 0, 0, 0.01, 0.3, 0.5, 1, 1.5, 2, r.Float64()), Strategy: r.IntN(3)}

	if be.Cfg.Jitter == 0 && chance(r, 0.5) {
		be.Cfg.Jitter = 0 // library default 0.1
	}

	be.Keys, be.Groups = genKeys(r, 3, 0)

	n := 1 + r.IntN(6)
	for i := 0; i < n; i++ {
		op := BEOp{Kind: "write", Key: r.IntN(len(be.Keys))}

		if chance(r, 0.12) {
			// Store has no context: the configured TimeToLive (and jitter) applies
			be.Root = append(be.Root, BEOp{Kind: "store", Key: op.Key})

			continue
		}

		if chance(r, 0.6) {
			op.HasTTL = true
			op.TTLNs = pick(r, 0, 1, 2, 3, 10, 1001, ms, 3*ms+1, sec, 59*sec, 3600*sec, 30*24*3600*sec, years, 10*years)

			if chance(r, 0.08) {
				op.TTLNs = pick(r, forever...)
			}

			if chance(r, 0.3) {
				op.TTLNs = -op.TTLNs
			}
		}

		be.Root = append(be.Root, op)
	}

	return sc
}

func (r *beRun) modeTTL() {
	e := r.e
	out := e.out
	ctx := context.Background()
	j := r.jitterFrac()

	bad := func(rule, class, format string, args ...interface{}) {
		out.violate("C10."+rule, r.sc.Backend+" "+class, format, args...)
	}

	for i := range r.sc.Root {
		op := &r.sc.Root[i]

		r.rootSleep(time.Duration(1 + i)) // strictly increasing clock between operations

		rec := r.exec(0, i, op)
		t := rec.invT

		if rec.invT != rec.retT {
			out.Internal = "clock moved inside a root-context operation"

			return
		}

		// where does Walk say the entry expires?
		var (
			found bool
			exp   int64
		)

		_, _ = r.bk.walk(func(key []byte, v interface{}, at time.Time) error {
			if string(key) == rec.key {
				found = true
				exp = at.UnixNano()

				if v != interface{}(rec.tok) {
					bad("R1", "walk-value", "Walk reports value %v for key %q right after writing %v", v, rec.key, rec.tok)
				}
			}

			return nil
		})

		if !found {
			bad("R1", "not-stored", "entry %q not reported by Walk right after Write", rec.key)

			continue
		}

		ttl, never := r.effTTL(op)
		class := fmt.Sprintf("cfgTTL=%s ctxTTL=%s jitter=%s draw=%s", durClass(r.sc.Cfg.TTLNs), ctxClass(op), jitClass(r.sc.Cfg.Jitter), e.sc.JitterMode)

		if never {
			out.probe("never_expiring_write")

			if exp != 0 {
				bad("R2", class, "UnlimitedTTL and no context TTL, yet Walk reports ExpireAt=%v for %q", time.Unix(0, exp).UTC(), rec.key)

				continue
			}

			if r.clockRoom(20 * 365 * 24 * time.Hour) {
				r.rootSleep(20 * 365 * 24 * time.Hour)
			}

			if v, err := r.bk.read(ctx, []byte(rec.key)); err != nil || v != interface{}(rec.tok) {
				bad("R2", class, "never-expiring entry %q read 20 years later gives (%v, %v)", rec.key, v, err)
			}

			continue
		}

		// all arithmetic relative to the write instant t (float64 cannot hold unix nanoseconds exactly)
		T := float64(ttl)
		slack := math.Abs(T)/float64(int64(1)<<50) + 1
		lo := T - math.Abs(T)*j/2 - slack
		hi := T + math.Abs(T)*j/2 + slack
		off := float64(exp - t)

		if j == 0 {
			lo, hi = T, T
			out.probe("jitter_disabled_write")
		} else {
			out.probe("jittered_write")
		}

		if maxTS := float64(math.MaxInt64); float64(t)+hi >= maxTS {
			// (Part of) the documented window lies beyond the last instant a timestamp can hold, so the exact
			// instant cannot be demanded. What a user of such a TTL relies on still can: the reported expiry is
			// not earlier than the window allows (or than the last representable year, when the whole window is
			// out of reach), and the entry is served now and decades later.
			out.probe("expiry_beyond_representable_time")

			lower := lo
			whole := float64(t)+lo >= maxTS

			if whole {
				lower = maxTS - float64(t) - float64(years1)
			}

			// (exp-t wraps around in int64 when exp did)
			if !(whole && exp == 0) && float64(exp)-float64(t) < lower {
				bad("R1", class+" beyond-representable", "entry written at t with effective TTL %v (jitter %v) expires at t%+v (%v), long before the documented window starts",
					ttl, j, time.Duration(exp-t), time.Unix(0, exp).UTC())

				continue
			}

			for _, wait := range []time.Duration{0, 20 * 365 * 24 * time.Hour} {
				if float64(time.Now().UnixNano())+float64(wait) >= float64(t)+lower || !r.clockRoom(wait) {
					break
				}

				r.rootSleep(wait)

				if v, err := r.bk.read(ctx, []byte(rec.key)); err != nil || v != interface{}(rec.tok) {
					bad("R3", class+" beyond-representable", "entry with effective TTL %v read %v after the write gives (%v, %v), expected the value", ttl, wait, v, err)
				}
			}

			continue
		}

		if off < lo || off > hi || (j == 0 && exp-t != int64(ttl)) {
			bad("R1", class, "entry written at t with effective TTL %v (jitter %v) expires at t%+v, outside the documented bounds [t%+v, t%+v]",
				ttl, j, time.Duration(exp-t), time.Duration(lo), time.Duration(hi))

			continue
		}

		now := time.Now().UnixNano()

		if exp > now && !r.clockRoom(time.Duration(exp-now)) {
			// the simulated clock itself cannot go there (and later operations still need room): the entry is
			// served now, the flip is not probed
			out.probe("expiry_near_end_of_time")

			if v, err := r.bk.read(ctx, []byte(rec.key)); err != nil || v != interface{}(rec.tok) {
				bad("R3", class, "read before the reported expiry instant (%v earlier) gives (%v, %v), expected the value", time.Duration(exp-now), v, err)
			}

			continue
		}

		if exp > now {
			// R3: reads strictly before the instant are fresh ...
			if exp-1 > now {
				out.fault("clock_jump")
				r.rootSleep(time.Duration(exp - 1 - now))
			}

			if v, err := r.bk.read(ctx, []byte(rec.key)); err != nil || v != interface{}(rec.tok) {
				bad("R3", class, "read before the reported expiry instant (%dns earlier) gives (%v, %v), expected the value", exp-time.Now().UnixNano(), v, err)
			}

			out.probe("flip_probed")
		} else {
			out.probe("born_expired")
		}

		if now = time.Now().UnixNano(); now <= exp {
			r.rootSleep(time.Duration(exp + 1 - now))
		}

		// ... and reads after it report ErrExpired with the same instant.
		v, err := r.bk.read(ctx, []byte(rec.key))
		if errKind(err) != "expired" {
			bad("R3", class, "read after the reported expiry instant gives (%v, %v), expected ErrExpired", v, err)

			continue
		}

		ev, at, ok := r.bk.expiredItem(err)
		if !ok || ev != interface{}(rec.tok) {
			bad("R4", class, "expired error carries %v, expected %v", ev, rec.tok)
		} else if at.UnixNano() != exp {
			bad("R4", class, "ErrExpired reports ExpiredAt=%v but Walk reported ExpireAt=%v", at.UTC(), time.Unix(0, exp).UTC())
		}
	}

	out.NonTrivial = len(r.recs) > 0
	out.Outcome = fmt.Sprintf("%d writes", len(r.recs))
}

const years1 = 365 * 24 * 3600 * sec

func durClass(ns int64) string {
	switch {
	case ns == 0:
		return "default"
	case ns == -1:
		return "unlimited"
	case ns < 0:
		return "negative"
	case ns < ms:
		return "sub-ms"
	case ns < 3600*sec:
		return "sub-hour"
	}

	return "long"
}

func ctxClass(op *BEOp) string {
	if !op.HasTTL {
		return "none"
	}

	if op.TTLNs == 0 {
		return "zero"
	}

	return durClass(op.TTLNs)
}

func jitClass(j float64) string {
	switch {
	case j < 0:
		return "off"
	case j == 0:
		return "default"
	}

	return "set"
}

// ---------------------------------------------------------------------------------------
// C11: the janitor deletes only entries expired longer than DeleteExpiredAfter.
// Root-driven: writes and clock jumps by the root, the real janitor runs as a scheduled task
// whenever the simulated clock crosses DeleteExpiredJobInterval.

func genC11(r *rand.Rand, run int, _ string) *Scenario {
	if run%5 == 4 {
		// concurrent variant: clients rewrite long-expired keys while the cleanup cycle is running
		return genJanitorRace(r)
	}

	if run%5 == 3 {
		// concurrent phase with the janitor running, then quiet cycles
		return genConcQuiet(r, "C11")
	}

	sc := genBEBase(r, "janitor")
	be := sc.BE
	dea := pick(r, sec, 10*sec, 60*sec, 3600*sec, 24*3600*sec)
	iv := pick(r, dea/4, dea/2, dea, 3*dea)
	be.Cfg = BEConfig{
		TTLNs: pick(r, int64(-1), -1, 0, 10*sec, 3600*sec), Jitter: pick(r, -1.0, 0),
		DeleteExpiredAfterNs: dea, JanitorIntervalNs: iv, Strategy: r.IntN(3),
	}
	if chance(r, 0.1) {
		// the documented defaults: entries are kept 24h after expiry, the job runs hourly
		dea, iv = 24*3600*sec, 3600*sec
		be.Cfg.LibDefaults, be.Cfg.DeleteExpiredAfterNs, be.Cfg.JanitorIntervalNs = true, 0, 0
	}

	be.Keys, be.Groups = genKeys(r, 6, 0)

	n := 2 + r.IntN(14)
	for i := 0; i < n; i++ {
		switch x := r.IntN(10); {
		case x < 5:
			op := BEOp{Kind: "write", Key: r.IntN(len(be.Keys))}

			switch r.IntN(5) {
			case 0, 1: // default TTL (never-expiring under UnlimitedTTL)
			case 2: // fresh for long
				op.HasTTL, op.TTLNs = true, 100*24*3600*sec
			case 3: // recently expired
				op.HasTTL, op.TTLNs = true, -pick(r, int64(1), dea/2, dea-ms)
			default: // long expired
				op.HasTTL, op.TTLNs = true, -(dea + pick(r, ms, dea, 10*dea))
			}

			be.Root = append(be.Root, op)
		case x < 6:
			be.Root = append(be.Root, BEOp{Kind: "read", Key: r.IntN(len(be.Keys))})
		case x < 7:
			op := BEOp{Kind: pick(r, "expireAll", "delete", "store", "restoreNever", "restoreNever", "restoreExpiring"), Key: r.IntN(len(be.Keys))}
			if op.Kind == "restoreExpiring" {
				// an entry with an expiry arrives through Restore (e.g. imported from a cache with a TTL)
				op.HasTTL, op.TTLNs = true, pick(r, 100*24*3600*sec, -pick(r, int64(1), dea/2, dea-ms), -(dea+pick(r, ms, dea, 10*dea)), -(dea+pick(r, ms, dea, 10*dea)))

				// in a third of the cases the stream breaks right after the record (a failed transfer)
				if chance(r, 0.33) {
					op.SrcServes = 1
				}
			}

			be.Root = append(be.Root, op)
		default:
			be.Root = append(be.Root, BEOp{Kind: "sleep", SleepNs: pick(r, iv/3, iv+ms, 2*iv+ms, dea+iv+ms, 3*iv)})
		}
	}

	be.Root = append(be.Root, BEOp{Kind: "sleep", SleepNs: iv + ms})

	return sc
}

func (r *beRun) modeJanitor() {
	e := r.e
	out := e.out
	m := newRefModel(r)
	dea := dur(r.sc.Cfg.DeleteExpiredAfterNs)
	if dea == 0 {
		dea = 24 * time.Hour // documented default

		out.probe("default_delete_expired_after")
	}

	explicitTTL := false
	cycles := 0

	if r.janitor == nil {
		out.Internal = "janitor task not found"

		return
	}

	seenWakes := r.janitor.Wakes

	// checkCycles compares the surviving key set with the reference map after cleanup cycles ran.
	checkCycles := func() bool {
		if r.janitor.Wakes == seenWakes {
			return true
		}

		before := seenWakes
		seenWakes = r.janitor.Wakes

		cycles += r.janitor.Wakes - before
		for i := 0; i < r.janitor.Wakes-before; i++ {
			out.fault("janitor_cycle")
		}
		wake, blocked := r.janitor.LastWakeNs, r.janitor.LastBlockNs
		bLo, bHi := wake-int64(dea), blocked-int64(dea)

		present := map[string]bool{}

		_, _ = r.bk.walk(func(key []byte, _ interface{}, _ time.Time) error {
			present[string(key)] = true

			return nil
		})

		scanDocumented := r.sc.Cfg.TTLNs != -1 || explicitTTL

		keys := make([]string, 0, len(m.m))
		for k := range m.m {
			keys = append(keys, k)
		}

		sort.Strings(keys)

		for _, k := range keys {
			en := m.m[k]
			kind := "fresh"

			switch {
			case en.never:
				kind = "never-expiring"
				out.probe("janitor_met_never_expiring_entry")
			case en.expLo > blocked:
				out.probe("janitor_met_fresh_entry")
			case en.expLo >= bHi:
				kind = "recently-expired"
				out.probe("janitor_met_recently_expired_entry")
			case en.expHi < bLo:
				kind = "long-expired"
			default:
				kind = "boundary"
			}

			switch kind {
			case "never-expiring", "fresh", "recently-expired":
				if !present[k] {
					out.violate("C11.R1", r.sc.Backend+" wrongly-deleted "+kind, "cleanup cycle at %v (DeleteExpiredAfter=%v) removed the %s entry %q (%s)", time.Unix(0, wake).UTC(), dea, kind, k, en.describe())
				}
			case "long-expired":
				if present[k] && scanDocumented {
					out.violate("C11.R2", r.sc.Backend+" not-deleted", "cleanup cycle at %v (DeleteExpiredAfter=%v) kept entry %q that expired at %v", time.Unix(0, wake).UTC(), dea, k, time.Unix(0, en.expHi).UTC())
				}

				if !present[k] {
					out.probe("janitor_deleted_long_expired_entry")
					delete(m.m, k)
				}
			default:
				if !present[k] {
					delete(m.m, k)
				}
			}
		}

		for k := range present {
			if m.m[k] == nil {
				out.violate("C11.R1", r.sc.Backend+" resurrected", "after the cleanup cycle Walk reports key %q which the reference map does not hold", k)
			}
		}

		if r.sc.Cfg.TTLNs == -1 && explicitTTL {
			out.probe("unlimited_cache_with_explicit_ttl_cycle")
		}

		if len(out.Violations) > 0 {
			return false
		}

		return true
	}

	// pump lets a janitor that was woken by a micro-sleep of the root run its cycle to the end.
	pump := func() bool {
		if r.janitor.Wakes == seenWakes {
			return true
		}

		if v := e.s.Run(); v != zs.Quiescent {
			out.Internal = "pump: " + v.String() + " " + e.s.StuckInfo

			return false
		}

		e.s.SettleRoot()

		return checkCycles()
	}

	for i := range r.sc.Root {
		op := &r.sc.Root[i]

		if op.Kind != "sleep" {
			r.rootSleep(1)

			if !pump() {
				return
			}

			if op.Kind == "restoreNever" {
				// an entry without expiry (E=0) arrives through Restore, whatever the target's TimeToLive
				r.restoreNever(m, i, op)
				out.probe("entry_without_expiry_restored")

				continue
			}

			if op.Kind == "restoreExpiring" {
				// an entry with an expiry arrives through Restore: from now on the cache holds an expiring
				// entry and the scan is due, whatever the target's TimeToLive
				r.restoreExpiring(m, i, op)
				out.probe("entry_with_expiry_restored")

				explicitTTL = true

				continue
			}

			rec := r.exec(0, i, op)

			if op.Kind == "write" && op.HasTTL && op.TTLNs != 0 {
				explicitTTL = true
			}

			// ExpireAll stamps every entry with an expiration: from then on expirations have been set, the
			// UnlimitedTTL shortcut ("nothing can have expired") no longer has its proof
			if op.Kind == "expireAll" && len(m.m) > 0 {
				explicitTTL = true
			}

			// keep the model in step (the sequential oracle proper is C07's)
			one := []*beRec{rec}
			save := len(out.Violations)
			m.checkSeq("C11.model", one)

			if len(out.Violations) > save {
				return
			}

			continue
		}

		out.fault("clock_jump")

		if v := e.s.Advance(dur(op.SleepNs)); v != zs.Quiescent {
			out.Internal = "advance: " + v.String() + " " + e.s.StuckInfo

			return
		}

		if !checkCycles() {
			return
		}
	}

	out.NonTrivial = cycles > 0 && len(r.recs) > 0
	out.Outcome = fmt.Sprintf("cycles=%d ops=%d", cycles, len(r.recs))
}

func (en *mEntry) describe() string {
	if en.never {
		return "value " + en.val.String() + ", never expires"
	}

	return fmt.Sprintf("value %s, expires %v", en.val, time.Unix(0, en.expLo).UTC())
}

// ---------------------------------------------------------------------------------------
// C12: eviction fires only on breach, removes the right amount in strategy order.

func genC12(r *rand.Rand, run int, _ string) *Scenario {
	if run%5 == 4 {
		return genC12Conc(r)
	}

	if run%5 == 3 {
		return genConcQuiet(r, "C12")
	}

	sc := genBEBase(r, "evict")
	be := sc.BE
	iv := 60 * sec
	limit := uint64(pick(r, 0, 1, 2, 5, 10, 40, 120, 300))
	dea := pick(r, 1000*24*3600*sec, 1000*24*3600*sec, 3600*sec)
	be.Cfg = BEConfig{
		TTLNs: pick(r, int64(0), 3600*sec, -1), Jitter: -1, DeleteExpiredAfterNs: dea, JanitorIntervalNs: iv,
		CountSoftLimit: limit, EvictFraction: pick(r, 0, 0.01, 0.1, 0.25, 0.5, 0.9, 1, r.Float64()), Strategy: r.IntN(3), Stats: chance(r, 0.5),
	}

	if chance(r, 0.5) {
		for i := 0; i < 4; i++ {
			be.Cfg.EvictionNeeded = append(be.Cfg.EvictionNeeded, chance(r, 0.5))
		}
	}

	// memory soft limits: never exceeded (must not trigger anything) or always exceeded
	if chance(r, 0.25) {
		be.Cfg.HeapLimit = pick(r, uint64(0), 1, math.MaxUint64, math.MaxUint64)
		be.Cfg.SysLimit = pick(r, uint64(0), 1, math.MaxUint64, math.MaxUint64)
	}

	n := 1 + r.IntN(8)
	if limit > 0 {
		n = int(float64(limit) * pick(r, 0.5, 1, 1.05, 1.5, 2, 4))
		if n < 1 {
			n = 1
		}
	}

	if n > 400 {
		n = 400
	}

	for i := 0; i < n; i++ {
		be.Keys = append(be.Keys, []byte(fmt.Sprintf("key-%03d", i)))
	}

	// fill
	perm := r.Perm(n)
	for _, k := range perm {
		op := BEOp{Kind: "write", Key: k}
		if be.Cfg.Strategy == 0 && chance(r, 0.7) {
			op.HasTTL, op.TTLNs = true, int64(1+r.IntN(5000))*sec
		}

		// entries that expired longer ago than DeleteExpiredAfter: purged by the same cleanup cycle,
		// they must count neither for the breach nor for the amount evicted
		if dea == 3600*sec && chance(r, 0.25) {
			op.HasTTL, op.TTLNs = true, -(dea + int64(1+r.IntN(5000))*sec)
		}

		be.Root = append(be.Root, op)
	}

	// Entries that arrive through Restore from an instance with ANOTHER eviction strategy, where they were served a
	// few times (a new version of the application warms up from the old one): whatever that instance noted about
	// its serves, this cache has not served them.
	if be.Cfg.Strategy == 2 && chance(r, 0.4) {
		for i := 0; i < 1+n/3; i++ {
			be.Root = append(be.Root, BEOp{Kind: "restoreServed", Key: r.IntN(n), SrcStrategy: 1, SrcServes: 1 + r.IntN(3)})
		}
	}

	// access history
	reads := r.IntN(3 * n)
	for i := 0; i < reads; i++ {
		be.Root = append(be.Root, BEOp{Kind: "read", Key: r.IntN(n)})

		if chance(r, 0.05) {
			be.Root = append(be.Root, BEOp{Kind: "write", Key: r.IntN(n)})
		}
	}

	cycles := 1 + r.IntN(3)
	for c := 0; c < cycles; c++ {
		be.Root = append(be.Root, BEOp{Kind: "sleep", SleepNs: iv + ms})

		for i := 0; i < r.IntN(n+1); i++ {
			be.Root = append(be.Root, BEOp{Kind: pick(r, "read", "read", "write"), Key: r.IntN(n)})
		}
	}

	return sc
}

type accessInfo struct {
	lastServe int64
	serves    int64
	exp       int64
	never     bool
	// restoredServes >= 0: the entry arrived through Restore from a cache of another strategy where it had been
	// served that often; -1: written here.
	restoredServes int64
}

func (r *beRun) modeEvict() {
	e := r.e
	out := e.out
	cfg := r.sc.Cfg
	acc := map[string]*accessInfo{}
	cycles := 0

	if r.janitor == nil {
		out.Internal = "janitor task not found"

		return
	}

	frac := cfg.EvictFraction
	if frac == 0 {
		frac = 0.1
	}

	walkSet := func() map[string]int64 {
		s := map[string]int64{}

		_, _ = r.bk.walk(func(key []byte, _ interface{}, at time.Time) error {
			s[string(key)] = at.UnixNano()

			return nil
		})

		return s
	}

	for i := range r.sc.Root {
		op := &r.sc.Root[i]

		if op.Kind != "sleep" {
			r.rootSleep(time.Duration(1000 + i)) // distinct serve instants

			if op.Kind == "restoreServed" {
				if a := r.restoreServed(i, op); a != nil {
					acc[string(r.sc.Keys[op.Key])] = a
					out.probe("entry_served_elsewhere_restored")
				}

				if out.Internal != "" {
					return
				}

				continue
			}

			rec := r.exec(0, i, op)

			switch op.Kind {
			case "write":
				ttl, never := r.effTTL(op)
				acc[rec.key] = &accessInfo{exp: rec.invT + int64(ttl), never: never, restoredServes: -1}
			case "read":
				if a := acc[rec.key]; a != nil && errKind(rec.err) != "notfound" {
					a.lastServe = rec.invT
					a.serves++
				}
			}

			continue
		}

		before := walkSet()

		// nothing may disappear between cleanup cycles (no Delete / DeleteAll in these workloads)
		for k := range acc {
			if _, ok := before[k]; !ok {
				out.violate("C12.R1", r.sc.Backend+" removed-outside-cleanup-cycle", "entry %q disappeared although no cleanup cycle ran since it was written / last seen", k)
			}
		}

		wakes, needBefore := r.janitor.Wakes, len(r.needCalls)
		evictMetricBefore := r.evictMetric()
		otherMetricsBefore := r.workloadMetrics()

		out.fault("clock_jump")

		if v := e.s.Advance(dur(op.SleepNs)); v != zs.Quiescent {
			out.Internal = "advance: " + v.String() + " " + e.s.StuckInfo

			return
		}

		if r.janitor.Wakes != wakes+1 {
			if r.janitor.Wakes != wakes {
				out.Internal = "more than one cleanup cycle in one jump"

				return
			}

			continue
		}

		cycles++
		out.fault("janitor_cycle")
		after := walkSet()

		// entries expired longer than DeleteExpiredAfter are purged by the cleanup job before
		// eviction is considered: they are not part of the population eviction works on
		bLo := r.janitor.LastWakeNs - cfg.DeleteExpiredAfterNs
		bHi := r.janitor.LastBlockNs - cfg.DeleteExpiredAfterNs
		ambiguous := false

		for k, exp := range before {
			if exp == 0 {
				continue
			}

			switch {
			case exp < bLo:
				if _, still := after[k]; still {
					ambiguous = true // C11's subject (not-deleted); do not judge eviction on top of it
				}

				delete(before, k)
				delete(acc, k)
				out.probe("long_expired_entry_purged_in_eviction_cycle")
			case exp <= bHi:
				ambiguous = true
			}
		}

		if ambiguous {
			// not judged; keep the access log in step with what is left
			for k := range acc {
				if _, ok := after[k]; !ok {
					delete(acc, k)
				}
			}

			continue
		}

		var removed, kept []string

		for k := range before {
			if _, ok := after[k]; ok {
				kept = append(kept, k)
			} else {
				removed = append(removed, k)
			}
		}

		sort.Strings(removed)
		sort.Strings(kept)

		n := len(before)
		countBreach := cfg.CountSoftLimit > 0 && uint64(n) > cfg.CountSoftLimit
		needTrue := false

		if cfg.EvictionNeeded != nil && len(r.needCalls) > needBefore {
			idx := needBefore
			needTrue = idx < len(cfg.EvictionNeeded) && cfg.EvictionNeeded[idx]
		}

		class := fmt.Sprintf("%s strategy=%d", r.sc.Backend, cfg.Strategy)

		for _, l := range []uint64{cfg.HeapLimit, cfg.SysLimit} {
			if l != 0 && l != 1 && l != math.MaxUint64 {
				out.Internal = "memory soft limit depends on the real allocator"

				return
			}
		}

		memBreach := cfg.HeapLimit == 1 || cfg.SysLimit == 1
		trigger := "EvictionNeeded returned true"

		if memBreach {
			trigger = "a memory soft limit is exceeded"
			class += " mem-limit"
		}

		switch {
		case !countBreach && !needTrue && !memBreach:
			out.probe("cycle_without_trigger")

			if len(removed) > 0 {
				out.violate("C12.R1", class+" evicted-without-trigger", "cleanup cycle removed %d of %d entries (e.g. %q) although no soft limit was exceeded (CountSoftLimit=%d, HeapInUseSoftLimit=%d, SysMemSoftLimit=%d) and EvictionNeeded did not return true", len(removed), n, removed[0], cfg.CountSoftLimit, cfg.HeapLimit, cfg.SysLimit)
			}
		case countBreach:
			out.probe("cycle_count_breach")

			target := float64(cfg.CountSoftLimit) * (1 - frac)
			if math.Abs(float64(len(kept))-target) > 1.000001 {
				out.violate("C12.R2", class+" count-breach-amount", "count breach: %d entries, CountSoftLimit=%d, EvictFraction=%v: %d entries survive, expected %.2f (within one entry)", n, cfg.CountSoftLimit, frac, len(kept), target)
			}
		default:
			if memBreach {
				out.probe("cycle_memory_limit_breach")
			} else {
				out.probe("cycle_eviction_needed")
			}

			want := math.Floor(float64(n) * frac)
			if math.Abs(float64(len(removed))-want) > 1.000001 {
				out.violate("C12.R2", class+" fraction-amount", trigger+": %d entries, EvictFraction=%v: %d removed, expected %.0f (+-1)", n, frac, len(removed), want)
			}
		}

		// R3: order under the configured strategy, ranks from the harness's own access log.
		if len(removed) > 0 && len(kept) > 0 {
			// rank(k, upper): for most entries one number; for an entry whose history is partly unknown to this
			// cache the lower or the upper end of what its rank can be
			rank := func(k string, upper bool) (float64, bool) {
				a := acc[k]
				if a == nil {
					return 0, false
				}

				switch cfg.Strategy {
				case 1:
					return float64(a.lastServe), true
				case 2:
					if a.restoredServes >= 0 && upper {
						// served here a.serves times and elsewhere a handful of times: whichever of the two
						// histories counts, the rank lies between a.serves and their sum
						return float64(a.serves + a.restoredServes), true
					}

					return float64(a.serves), true
				default:
					if a.never {
						return 0, false // the property is silent on entries without expiry
					}

					return float64(a.exp), true
				}
			}

			maxRem, minKept := math.Inf(-1), math.Inf(1)

			var mr, mk string

			for _, k := range removed {
				if v, ok := rank(k, false); ok && v > maxRem {
					maxRem, mr = v, k
				}
			}

			for _, k := range kept {
				if v, ok := rank(k, true); ok && v < minKept {
					minKept, mk = v, k
				}
			}

			if maxRem > minKept {
				out.violate("C12.R3", class+" order", "strategy %s: removed entry %q ranks higher (%v) than kept entry %q (%v)", []string{"most-expired", "LRU", "LFU"}[cfg.Strategy], mr, maxRem, mk, minKept)
			}

			out.probe("order_checked")
		}

		if cfg.Stats && (countBreach || needTrue || memBreach) {
			if got := r.evictMetric() - evictMetricBefore; int(got) != len(removed) {
				out.violate("C12.R4", class+" evict-metric", "cache_evict grew by %v in a cycle that removed %d entries", got, len(removed))
			}
		}

		// the workload's own counters (reads, writes, deletes) belong to the workload: a cleanup / eviction cycle,
		// during which no client operation ran, leaves them alone
		if cfg.Stats {
			after := r.workloadMetrics()
			for _, name := range []string{"cache_delete", "cache_write", "cache_hit", "cache_miss", "cache_expired"} {
				if after[name] != otherMetricsBefore[name] {
					out.violate("C12.R4", class+" "+name+"-changed-by-cleanup-cycle", "%s went from %v to %v during a cleanup cycle in which no client operation ran (%d entries were evicted or purged)", name, otherMetricsBefore[name], after[name], len(removed))
				}
			}
		}

		for _, k := range removed {
			delete(acc, k)
		}

		if len(out.Violations) > 0 {
			return
		}
	}

	out.NonTrivial = cycles > 0
	out.Outcome = fmt.Sprintf("cycles=%d n=%d", cycles, len(r.sc.Keys))
}

// workloadMetrics sums the counters that only client operations may move.
func (r *beRun) workloadMetrics() map[string]float64 {
	m := map[string]float64{}

	for _, st := range r.stats {
		if !st.set {
			m[st.name] += st.val
		}
	}

	return m
}

func (r *beRun) evictMetric() float64 {
	s := 0.0

	for _, st := range r.stats {
		if st.name == "cache_evict" && !st.set {
			s += st.val
		}
	}

	return s
}

// restoreNever dumps a one-entry UnlimitedTTL cache of the same family and restores it into the
// cache under test: the entry has no expiry (E == 0) and must survive every cleanup cycle.
func (r *beRun) restoreNever(m *refModel, i int, op *BEOp) {
	cfg := r.cacheConfig()
	cfg.TimeToLive = cache.UnlimitedTTL
	cfg.DeleteExpiredJobInterval = farFuture
	cfg.Stats, cfg.Logger, cfg.EvictionNeeded = nil, nil, nil

	src := newBackend(r.sc.Backend, cfg)
	key := string(r.sc.Keys[op.Key])
	tok := Tok{K: key, ID: fmt.Sprintf("w0.%d", i)}

	_ = src.write(context.Background(), []byte(key), tok)

	var buf bytes.Buffer

	_, _ = src.dump(&buf)
	src.stop()

	if n, err := r.bk.restore(&buf); n != 1 || err != nil {
		r.e.out.Internal = fmt.Sprintf("restore of a one-entry dump gave (%d, %v)", n, err)

		return
	}

	now := time.Now().UnixNano()
	m.m[key] = &mEntry{val: tok, never: true, writeLo: now, writeHi: now}
	r.e.logf("restored %q without expiry", key)
}

// restoreExpiring dumps a one-entry cache of the same family whose entry carries an explicit TTL
// and restores it into the cache under test.
// restoreServed: an entry that was written and served op.SrcServes times in a cache with eviction strategy
// op.SrcStrategy is dumped there and restored here.
func (r *beRun) restoreServed(i int, op *BEOp) *accessInfo {
	cfg := r.cacheConfig()
	cfg.TimeToLive = 1000 * time.Hour
	cfg.ExpirationJitter = -1
	cfg.DeleteExpiredJobInterval = farFuture
	cfg.CountSoftLimit, cfg.HeapInUseSoftLimit, cfg.SysMemSoftLimit = 0, 0, 0
	cfg.EvictionStrategy = cache.EvictionStrategy(op.SrcStrategy)
	cfg.Stats, cfg.Logger, cfg.EvictionNeeded = nil, nil, nil

	src := newBackend(r.sc.Backend, cfg)
	key := string(r.sc.Keys[op.Key])
	tok := Tok{K: key, ID: fmt.Sprintf("w0.%d", i)}

	lo := time.Now().UnixNano()
	_ = src.write(context.Background(), []byte(key), tok)

	for n := 0; n < op.SrcServes; n++ {
		_, _ = src.read(context.Background(), []byte(key))
	}

	var buf bytes.Buffer

	_, _ = src.dump(&buf)
	src.stop()

	if n, err := r.bk.restore(&buf); n != 1 || err != nil {
		r.e.out.Internal = fmt.Sprintf("restore of a one-entry dump gave (%d, %v)", n, err)

		return nil
	}

	r.e.logf("restored %q, served %d times by a cache with strategy %d", key, op.SrcServes, op.SrcStrategy)

	return &accessInfo{exp: lo + int64(cfg.TimeToLive), restoredServes: int64(op.SrcServes)}
}

func (r *beRun) restoreExpiring(m *refModel, i int, op *BEOp) {
	cfg := r.cacheConfig()
	cfg.TimeToLive = time.Hour
	cfg.ExpirationJitter = -1
	cfg.DeleteExpiredJobInterval = farFuture
	cfg.Stats, cfg.Logger, cfg.EvictionNeeded = nil, nil, nil

	src := newBackend(r.sc.Backend, cfg)
	key := string(r.sc.Keys[op.Key])
	tok := Tok{K: key, ID: fmt.Sprintf("w0.%d", i)}

	ttl := op.TTLNs
	if !op.HasTTL || ttl == 0 {
		ttl = int64(cfg.TimeToLive) // the shrinker may have dropped the explicit TTL: the source's default applies
	}

	lo := time.Now().UnixNano()
	_ = src.write(cache.WithTTL(context.Background(), dur(ttl), false), []byte(key), tok)
	hi := time.Now().UnixNano()

	var buf bytes.Buffer

	_, _ = src.dump(&buf)
	src.stop()

	if op.SrcServes == 1 {
		// (field reused as a flag, see genC11) the stream breaks after the record: the transfer failed, what had
		// been restored by then is in the cache all the same
		buf.Write([]byte{0x03, 0xff, 0xfe})
		r.e.out.fault("restore_stream_corrupt_tail")

		if n, err := r.bk.restore(&buf); n != 1 || err == nil {
			r.e.out.Internal = fmt.Sprintf("restore of a one-entry dump with a corrupt tail gave (%d, %v)", n, err)

			return
		}
	} else if n, err := r.bk.restore(&buf); n != 1 || err != nil {
		r.e.out.Internal = fmt.Sprintf("restore of a one-entry dump gave (%d, %v)", n, err)

		return
	}

	now := time.Now().UnixNano()
	m.m[key] = &mEntry{val: tok, expLo: lo + ttl, expHi: hi + ttl, writeLo: lo, writeHi: now}
	r.e.logf("restored %q with expiry %v", key, time.Unix(0, lo+ttl).UTC())
}

// oracleC11Conc (concurrent variant of C11): fresh entries survive any number of cleanup cycles,
// also when they were written while a cycle was in progress.
func (r *beRun) oracleC11Conc() {
	if r.sc.Mode != "conc" {
		return
	}

	out := r.e.out
	last := map[string]*beRec{}

	for _, rec := range r.recs {
		if rec.done && (rec.kind == "write" || rec.kind == "delete" || rec.kind == "deleteAll") {
			if p := last[rec.key]; p == nil || rec.ret > p.ret {
				last[rec.key] = rec
			}
		}
	}

	cycles := 0
	if r.janitor != nil {
		cycles = len(r.janitor.WakeSeqs)
	}

	for k, w := range last {
		if w.kind != "write" || (w.op.HasTTL && w.op.TTLNs < 0) {
			continue
		}

		// no other write/delete of the key overlapped this one
		clean := true

		for _, o := range r.recs {
			if o != w && o.key == k && (o.kind == "write" || o.kind == "delete") && overlapping(o.inv, o.ret, w.inv, w.ret) {
				clean = false
			}
		}

		if !clean {
			continue
		}

		overl := false

		if r.janitor != nil {
			for i, ws := range r.janitor.WakeSeqs {
				if i+1 < len(r.janitor.BlockSeqs) && ws < w.ret && r.janitor.BlockSeqs[i+1] > w.inv {
					overl = true
				}
			}
		}

		if overl {
			out.probe("fresh_write_during_cleanup_cycle")
		}

		v, err := r.bk.read(context.Background(), []byte(k))
		if err != nil || v != interface{}(w.tok) {
			class := "fresh-entry-removed"
			if overl {
				class = "fresh-entry-written-during-cycle-removed"
			}

			out.violate("C11.R1", r.sc.Backend+" "+class, "key %q was written with a fresh value %v (completed at seq %d), no client deleted it, %d cleanup cycles ran, and now Read gives (%v, %v)", k, w.tok, w.ret, cycles, v, err)
		}
	}

	out.NonTrivial = cycles > 0 && len(r.recs) > 0
	out.Outcome = fmt.Sprintf("conc cycles=%d ops=%d", cycles, len(r.recs))
}

// rootSleep advances the bubble clock from the root and waits until every task that a timer woke
// at the new instant has re-parked, so that what the root reads next (task counters, library
// state) does not depend on how fast those goroutines got there.
// clockRoom: may the simulated clock advance by d and still leave decades before the last unix-nanosecond
// instant (the fake clock of the bubble cannot go beyond it)?
func (r *beRun) clockRoom(d time.Duration) bool {
	return float64(time.Now().UnixNano())+float64(d) < float64(math.MaxInt64)-float64(60*years1)
}

func (r *beRun) rootSleep(d time.Duration) {
	time.Sleep(d)
	r.e.s.SettleRoot()
}
