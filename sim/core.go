// Package sim is the harness of the deterministic simulator for github.com/bool64/cache.
// It is compiled as a test binary (testing/synctest needs *testing.T) against the
// instrumented scratch copy of the library.
package sim

import (
	"encoding/json"
	"fmt"
	"math/rand/v2"
	"os"
	"runtime"
	"sort"
	"strconv"
	"strings"
	"sync"
	"sync/atomic"
	"testing"
	"testing/synctest"
	"time"

	zs "github.com/bool64/cache/zzverifsim"
)

// SchedSpec selects the schedule source of a run.
type SchedSpec struct {
	Kind    string `json:"kind"`              // random | pct | seq | replay
	Seed    uint64 `json:"seed,omitempty"`    // for random / pct / seq
	Depth   int    `json:"depth,omitempty"`   // pct: number of priority change points; seq: preemptions
	Horizon int    `json:"horizon,omitempty"` // pct/seq: steps over which change points are spread
	Choices []int  `json:"choices,omitempty"` // replay: recorded choice indices
}

// Scenario is one explicit, replayable simulated run.
type Scenario struct {
	Prop   string `json:"prop"`
	Engine string `json:"engine"`
	Seed   uint64 `json:"seed"`
	Run    int    `json:"run"`

	Sched      SchedSpec `json:"sched"`
	TickNs     int64     `json:"tick_ns"`
	NoFastPath bool      `json:"no_fast_path,omitempty"`
	MapSeed    uint64    `json:"map_seed"`
	JitterMode string    `json:"jitter_mode,omitempty"` // "", zero, half, max, prng
	JitterSeed uint64    `json:"jitter_seed,omitempty"`

	FO *FOScenario `json:"fo,omitempty"`
	BE *BEScenario `json:"be,omitempty"`
	TR *TRScenario `json:"tr,omitempty"`

	Hash *HashScenario `json:"hash,omitempty"`
}

// Violation is one oracle rule broken in a run.
type Violation struct {
	Rule   string `json:"rule"`   // e.g. C01.R1
	Sig    string `json:"sig"`    // discriminating attributes; (rule, sig) is what shrinking preserves
	Detail string `json:"detail"` // human-readable
}

// Signature identifies a violation class.
func (v Violation) Signature() string { return v.Rule + " " + v.Sig }

// RunOut is what one simulated run produced.
type RunOut struct {
	Violations []Violation    `json:"violations,omitempty"`
	Probes     map[string]int `json:"probes,omitempty"`
	Faults     map[string]int `json:"faults,omitempty"`
	Steps      int            `json:"steps"`
	SimNs      int64          `json:"sim_ns"`
	SchedSig   uint64         `json:"sched_sig"`
	Hash       uint64         `json:"hash"`
	Outcome    string         `json:"outcome,omitempty"`
	NonTrivial bool           `json:"nontrivial"`
	Verdict    string         `json:"verdict"`
	Internal   string         `json:"internal,omitempty"`
	Trace      []string       `json:"trace,omitempty"`
	Choices    []int          `json:"choices,omitempty"`
	Known      []string       `json:"known,omitempty"`
	Inconcl    int            `json:"inconclusive,omitempty"`

	// post runs after the bubble has been left (checks that need real timers, e.g. porcupine).
	post []func()
}

func (o *RunOut) probe(name string) {
	if o.Probes == nil {
		o.Probes = map[string]int{}
	}

	o.Probes[name]++
}

func (o *RunOut) fault(name string) {
	if o.Faults == nil {
		o.Faults = map[string]int{}
	}

	o.Faults[name]++
}

func (o *RunOut) violate(rule, sig, format string, args ...interface{}) {
	for _, v := range o.Violations {
		if v.Rule == rule && v.Sig == sig {
			return
		}
	}

	o.Violations = append(o.Violations, Violation{Rule: rule, Sig: sig, Detail: fmt.Sprintf(format, args...)})
}

// ---------------------------------------------------------------------------------------
// PRNG

func newRng(parts ...uint64) *rand.Rand {
	var a, b uint64 = 0x9e3779b97f4a7c15, 0xbf58476d1ce4e5b9
	for i, p := range parts {
		a ^= p + 0x9e3779b97f4a7c15 + (a << 6) + (a >> 2)
		b = (b ^ (p * uint64(2*i+3))) * 0x94d049bb133111eb
	}

	return rand.New(rand.NewPCG(a, b))
}

func pick[T any](r *rand.Rand, xs ...T) T { return xs[r.IntN(len(xs))] }

func chance(r *rand.Rand, p float64) bool { return r.Float64() < p }

// ---------------------------------------------------------------------------------------
// Choosers

type randomChooser struct{ r *rand.Rand }

func (c *randomChooser) Choose(_ int, cands []zs.Cand) int { return c.r.IntN(len(cands)) }

// pctChooser: random task priorities with a few priority change points (PCT).
type pctChooser struct {
	seed    uint64
	changes map[int]bool
	prio    map[string]uint64
	low     uint64
}

func newPCT(seed uint64, depth, horizon int) *pctChooser {
	r := newRng(seed, 77)
	c := &pctChooser{seed: seed, changes: map[int]bool{}, prio: map[string]uint64{}, low: 1 << 20}

	if horizon < 4 {
		horizon = 4
	}

	for i := 0; i < depth; i++ {
		c.changes[1+r.IntN(horizon)] = true
	}

	return c
}

func (c *pctChooser) p(id string) uint64 {
	if v, ok := c.prio[id]; ok {
		return v
	}

	v := zs.HashString(id, fmt.Sprint(c.seed))>>8 + (1 << 21)
	c.prio[id] = v

	return v
}

func (c *pctChooser) Choose(step int, cands []zs.Cand) int {
	best := 0

	for i := range cands {
		if c.p(cands[i].ID) > c.p(cands[best].ID) {
			best = i
		}
	}

	if c.changes[step] {
		c.low--
		c.prio[cands[best].ID] = c.low
		best = 0

		for i := range cands {
			if c.p(cands[i].ID) > c.p(cands[best].ID) {
				best = i
			}
		}
	}

	return best
}

// seqChooser: keep running the same task while it is runnable; preempt at a few random steps.
type seqChooser struct {
	r       *rand.Rand
	last    string
	preempt map[int]bool
}

func newSeq(seed uint64, depth, horizon int) *seqChooser {
	r := newRng(seed, 99)
	c := &seqChooser{r: r, preempt: map[int]bool{}}

	if horizon < 4 {
		horizon = 4
	}

	for i := 0; i < depth; i++ {
		c.preempt[1+r.IntN(horizon)] = true
	}

	return c
}

func (c *seqChooser) Choose(step int, cands []zs.Cand) int {
	if !c.preempt[step] {
		for i := range cands {
			if cands[i].ID == c.last {
				return i
			}
		}
	}

	i := c.r.IntN(len(cands))
	c.last = cands[i].ID

	return i
}

// replayChooser replays recorded indices; when exhausted or out of range it continues the
// current task, else the lowest id: truncating the list yields a simpler valid schedule.
type replayChooser struct {
	choices []int
	pos     int
	last    string
}

func (c *replayChooser) Choose(_ int, cands []zs.Cand) int {
	idx := -1

	if c.pos < len(c.choices) {
		idx = c.choices[c.pos]
		c.pos++
	}

	if idx < 0 || idx >= len(cands) {
		idx = 0

		for i := range cands {
			if cands[i].ID == c.last {
				idx = i
			}
		}
	}

	c.last = cands[idx].ID

	return idx
}

func makeChooser(s SchedSpec) zs.Chooser {
	switch s.Kind {
	case "replay":
		return &replayChooser{choices: s.Choices}
	case "pct":
		return newPCT(s.Seed, s.Depth, s.Horizon)
	case "seq":
		return newSeq(s.Seed, s.Depth, s.Horizon)
	default:
		return &randomChooser{r: newRng(s.Seed, 55)}
	}
}

func genSched(r *rand.Rand, horizon int) SchedSpec {
	switch r.IntN(10) {
	case 0, 1, 2, 3:
		return SchedSpec{Kind: "random", Seed: r.Uint64()}
	case 4, 5, 6:
		return SchedSpec{Kind: "pct", Seed: r.Uint64(), Depth: 1 + r.IntN(3), Horizon: horizon}
	default:
		return SchedSpec{Kind: "seq", Seed: r.Uint64(), Depth: r.IntN(4), Horizon: horizon}
	}
}

// ---------------------------------------------------------------------------------------
// Running one scenario inside a bubble

// env is what an engine gets for one run.
type env struct {
	sc  *Scenario
	s   *zs.Sim
	out *RunOut

	cleanup []func() // stop hooks of every cache created (run inside the bubble, always)

	setup  bool // jitter source returns 0.5 (no change) while the harness prepares state
	jitter *rand.Rand
}

func (e *env) logf(format string, args ...interface{}) { e.s.Logf(format, args...) }

func (e *env) jitterDraw() float64 {
	if e.setup {
		return 0.5
	}

	switch e.sc.JitterMode {
	case "zero":
		return 0
	case "max":
		return 1 - 1.0/(1<<53)
	case "prng":
		return e.jitter.Float64()
	default:
		return 0.5
	}
}

var engines = map[string]func(e *env){}

// execute runs the scenario in a fresh bubble. trace keeps the full event log.
// Wall-clock watchdog: the simulator decides every interleaving it can see, but a library change that
// holds a real lock across a call-out can still block a worker at OS level. A run that makes no progress
// for hangAfter of wall time ends the worker with a diagnostic (the driver turns that into exit 2, an
// internal error, never a VIOLATION).
var hangAfter = 240 * time.Second

func init() {
	// self-test of the watchdog / restart path only (tools/selftest_watchdog.sh)
	if v := os.Getenv("VERIF_HANG_AFTER_S"); v != "" {
		if n, err := strconv.Atoi(v); err == nil && n > 0 {
			hangAfter = time.Duration(n) * time.Second
		}
	}
}

var (
	execStartNs atomic.Int64 // wall clock at the start of the execution in progress (0: idle)
	execWhat    atomic.Value // description of that execution
	watchOnce   sync.Once
)

func startHangWatchdog() {
	watchOnce.Do(func() {
		go func() {
			for {
				time.Sleep(5 * time.Second)

				if st := execStartNs.Load(); st != 0 && time.Since(time.Unix(0, st)) > hangAfter {
					fmt.Printf("INTERNAL worker hung: %v made no progress for %v of wall time (blocked outside the simulator's control)\n", execWhat.Load(), hangAfter)
					os.Exit(3)
				}
			}
		}()
	})
}

func execute(t *testing.T, sc *Scenario, trace bool) (out *RunOut) {
	out = &RunOut{}

	startHangWatchdog()
	execWhat.Store(fmt.Sprintf("prop=%s seed=%d run=%d engine=%s", sc.Prop, sc.Seed, sc.Run, sc.Engine))
	execStartNs.Store(time.Now().UnixNano())

	defer execStartNs.Store(0)

	// self-test hook: stall once (the marker file makes the restarted worker run normally)
	if f := os.Getenv("VERIF_FAKE_STALL_ONCE"); f != "" && os.Getenv("VERIF_WORKER") == "0" {
		if _, err := os.Stat(f); err != nil {
			_ = os.WriteFile(f, []byte("stalled"), 0o600)

			time.Sleep(time.Hour)
		}
	}

	defer func() {
		if r := recover(); r != nil {
			out.Internal = fmt.Sprintf("panic outside bubble: %v", r)
		}
	}()

	if sc.Engine == "hash" {
		runHash(sc, out)

		return out
	}

	synctest.Test(t, func(_ *testing.T) {
		runInBubble(sc, out, trace)
	})

	for _, f := range out.post {
		f()
	}

	out.post = nil

	return out
}

func runInBubble(sc *Scenario, out *RunOut, trace bool) {
	var s *zs.Sim

	e := &env{sc: sc, out: out, jitter: newRng(sc.JitterSeed, 13)}

	defer func() {
		if r := recover(); r != nil {
			buf := make([]byte, 4096)
			buf = buf[:runtime.Stack(buf, false)]

			if fr := libraryFrame(string(buf)); fr != "" && !zs.IsKilled(r) {
				// the panic was raised inside the library (called by the harness's root task with valid
				// arguments): a finding about the library, not about the harness
				out.violate(sc.Prop+".PANIC", "library panicked in "+fr+": "+stripDigits(fmt.Sprint(r)), "the library panicked in %s, called by the harness's root task: %v", fr, r)
			} else {
				out.Internal = fmt.Sprintf("harness panic: %v\n%s", r, buf)
			}
		}

		for _, f := range append(e.cleanup, liveBackends...) {
			func() {
				defer func() { _ = recover() }()
				f()
			}()
		}

		liveBackends = nil

		if s != nil {
			if leaked := s.Teardown(); leaked > 0 && out.Internal == "" {
				out.Internal = fmt.Sprintf("%d task goroutines survived teardown: %s", leaked, s.StuckInfo)
			}

			s.Close()
		}
	}()

	mapRng := newRng(sc.MapSeed, 11)
	cfg := zs.Config{
		Wait:       synctest.Wait,
		Chooser:    makeChooser(sc.Sched),
		TickNs:     sc.TickNs,
		NoFastPath: sc.NoFastPath,
		Trace:      trace,
		Jitter:     e.jitterDraw,
		Perm:       func(n int) []int { return mapRng.Perm(n) },
		Race:       sc.Prop == "C16",
		MaxSteps:   60000,
	}

	s = zs.New(cfg)
	e.s = s

	run := engines[sc.Engine]
	if run == nil {
		out.Internal = "unknown engine " + sc.Engine

		return
	}

	run(e)

	if sc.Prop == "C16" {
		for _, rep := range s.RaceReports() {
			rule := "C16.R1"
			if rep.Map {
				rule = "C16.R2"
			}

			out.violate(rule, rep.Key(), "%s: the two accesses are not ordered by any synchronisation the library performs (mutex, sync.Map, atomic, channel, goroutine start)", rep.String())
		}
	}

	out.Steps = s.Steps
	out.SimNs = s.NowNs()
	out.SchedSig = s.SchedSig
	out.Hash = s.Hash()
	out.Choices = append([]int(nil), s.Choices...)

	if trace {
		out.Trace = s.TraceLines()
	}
}

// runAll schedules until quiescence and maps the other verdicts.
func (e *env) runAll(stuckRule string) bool {
	v := e.s.Run()
	e.s.SettleRoot()
	e.out.Verdict = v.String()

	switch v {
	case zs.Quiescent:
		return true
	case zs.Stuck:
		if stuckRule != "" {
			e.out.violate(stuckRule, "stuck", "no task can run but some have not finished: %s", e.s.StuckInfo)
		} else {
			e.out.Internal = "stuck: " + e.s.StuckInfo
		}
	default:
		e.out.Internal = "watchdog: " + e.s.StuckInfo
	}

	return false
}

// checkPanics turns a panic inside any task into a violation of the property under check.
func (e *env) checkPanics() {
	for _, t := range e.s.Tasks() {
		if t.Panic != nil {
			info := t.PanicInfo
			first := strings.SplitN(info, "\n", 2)[0]
			e.out.violate(e.sc.Prop+".PANIC", panicSite(info), "task %s panicked: %s", t.ID, first)
			e.logf("PANIC in %s: %s", t.ID, info)
		}
	}
}

// panicSite extracts the first library frame (file:line) from a stack dump.
func panicSite(info string) string {
	for _, ln := range strings.Split(info, "\n") {
		ln = strings.TrimSpace(ln)
		if i := strings.Index(ln, "/cache/"); i >= 0 && strings.Contains(ln, ".go:") && !strings.Contains(ln, "zzverifsim") {
			f := ln[i+len("/cache/"):]
			if j := strings.Index(f, " "); j > 0 {
				f = f[:j]
			}

			return f
		}
	}

	return "unknown-site"
}

func sortedKeys[V any](m map[string]V) []string {
	ks := make([]string, 0, len(m))
	for k := range m {
		ks = append(ks, k)
	}

	sort.Strings(ks)

	return ks
}

func jsonStr(v interface{}) string {
	b, _ := json.Marshal(v)

	return string(b)
}

func dur(ns int64) time.Duration { return time.Duration(ns) }

// libraryFrame returns the first function of the library proper (not the simulator runtime copied into its tree)
// in a stack dump whose panic was raised there, i.e. that appears before any harness frame other than the deferred
// recover itself.
func libraryFrame(stack string) string {
	lines := strings.Split(stack, "\n")
	seenPanic := false

	for _, ln := range lines {
		ln = strings.TrimSpace(ln)

		if strings.HasPrefix(ln, "panic(") {
			seenPanic = true

			continue
		}

		if !seenPanic || ln == "" || strings.HasPrefix(ln, "/") {
			continue
		}

		switch {
		case strings.HasPrefix(ln, "runtime.") || strings.HasPrefix(ln, "internal/") || strings.HasPrefix(ln, "sync") || strings.HasPrefix(ln, "reflect.") || strings.HasPrefix(ln, "encoding/"):
			continue
		case strings.HasPrefix(ln, "github.com/bool64/cache/zzverifsim."):
			continue
		case strings.HasPrefix(ln, "github.com/bool64/cache."):
			if i := strings.Index(ln, "("); i > 0 {
				// keep the function name without its argument list
				for j := len(ln) - 1; j > 0; j-- {
					if ln[j] == '(' {
						return strings.TrimPrefix(ln[:j], "github.com/bool64/cache.")
					}
				}
			}

			return ln
		default:
			return "" // a harness (or other) frame comes first: not the library's panic
		}
	}

	return ""
}
