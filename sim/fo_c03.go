package sim

import (
	"context"
	"errors"
	"fmt"
	"math/rand/v2"
)

// C03: the lone-Get decision table, enumerated completely. The run index is decoded into a
// cell; the generator returns nil when the table is exhausted.

type c03Cell struct {
	state    string // absent fresh staleok staleold
	failHit  bool
	syncUpd  bool
	failHard bool
	maxStale bool
	failTTL  int64 // 0 default, -1 disabled
	buildErr bool
	flavour  int // 0 failover/sharded 1 failover/syncmap 2 failoverOf/shardedOf 3 failover/ShardedMapOf[any] 4 FailoverOf[any]/syncmap
	offset   int // 0..2 clock offset variant
	syncRead bool
	nilPre   bool // the cached value is a nil interface (untyped API only)
	wrapErr  bool // the backend is a decorator that wraps read errors (expired items reachable via errors.As only)
}

var c03Cells []c03Cell

func init() {
	for _, state := range []string{"absent", "fresh", "staleok", "staleold"} {
		for _, failHit := range []bool{false, true} {
			for _, syncUpd := range []bool{false, true} {
				for _, failHard := range []bool{false, true} {
					for _, maxStale := range []bool{false, true} {
						for _, failTTL := range []int64{0, -1} {
							for _, buildErr := range []bool{false, true} {
								for flavour := 0; flavour < 5; flavour++ {
									for offset := 0; offset < 3; offset++ {
										for _, syncRead := range []bool{false, true} {
											if failHit && failTTL == -1 {
												continue
											}

											if state == "staleold" && !maxStale {
												continue
											}

											c03Cells = append(c03Cells, c03Cell{state, failHit, syncUpd, failHard, maxStale, failTTL, buildErr, flavour, offset, syncRead, false, false})

											if state != "absent" && flavour != 2 && offset == 1 {
												c03Cells = append(c03Cells, c03Cell{state, failHit, syncUpd, failHard, maxStale, failTTL, buildErr, flavour, offset, syncRead, true, false})
											}

											if offset == 1 {
												c03Cells = append(c03Cells, c03Cell{state, failHit, syncUpd, failHard, maxStale, failTTL, buildErr, flavour, offset, syncRead, false, true})
											}
										}
									}
								}
							}
						}
					}
				}
			}
		}
	}

	gens["C03"] = genC03
	foOracles["C03"] = (*foRun).oracleC03
}

const c03MaxStale = 10 * sec

func genC03(r *rand.Rand, run int, tier string) *Scenario {
	reps := 1
	if tier == "thorough" {
		reps = 40
	}

	if run >= len(c03Cells)*reps {
		return nil
	}

	c := c03Cells[run%len(c03Cells)]
	sc := &Scenario{Engine: "fo", TickNs: pick(r, int64(1), 100, 1000), MapSeed: r.Uint64(), JitterSeed: r.Uint64()}
	sc.JitterMode = pick(r, "", "zero", "max", "prng")
	sc.NoFastPath = run >= len(c03Cells) && chance(r, 0.3)
	sc.Sched = genSched(r, 40)

	fo := &FOScenario{Keys: []string{"k0"}, WrapBackendErrs: c.wrapErr}
	sc.FO = fo

	switch c.flavour {
	case 0:
		fo.API, fo.Backend = "failover", "sharded"
	case 1:
		fo.API, fo.Backend = "failover", "syncmap"
	case 3:
		fo.API, fo.Backend = "failover", "shardedOfAny"
	case 4:
		fo.API, fo.Backend = "failoverOfAny", "syncmap"
	default:
		fo.API, fo.Backend = "failoverOf", "shardedOf"
	}

	fo.Cfg = FOConfig{SyncUpdate: c.syncUpd, SyncRead: c.syncRead, FailHard: c.failHard, FailedUpdateTTLNs: c.failTTL}
	if c.maxStale {
		fo.Cfg.MaxStalenessNs = c03MaxStale
	}

	fo.Cfg.Logger = run >= len(c03Cells) && chance(r, 0.3)
	fo.Cfg.Stats = run >= len(c03Cells) && chance(r, 0.3)
	fo.BackendJitter = pick(r, -1.0, 0)
	fo.BackendTTLNs = 600 * sec

	in := FOInit{Key: 0, FailAgeNs: -1, NilValue: c.nilPre}

	switch c.state {
	case "absent":
		in.State = "absent"
	case "fresh":
		in.State = "fresh"
	case "staleok":
		in.State = "stale"
		in.AgeNs = []int64{ms, c03MaxStale / 2, c03MaxStale - ms}[c.offset]
	case "staleold":
		in.State = "stale"
		in.AgeNs = []int64{c03MaxStale + 1000, 2 * c03MaxStale, 100 * c03MaxStale}[c.offset]
	}

	if c.failHit {
		// cached failure aged inside FailedUpdateTTL (default 20s, error cache jitter 0.1)
		in.FailAgeNs = []int64{0, 5 * sec, 18 * sec}[c.offset]
	}

	fo.Init = []FOInit{in}
	fo.Clients = [][]FOOp{{{Kind: "get", Key: 0, BuildFail: c.buildErr, BuildSleepNs: sec}}}

	return sc
}

func (r *foRun) c03Cell() string {
	sc := r.sc
	in := sc.Init[0]
	state := in.State

	if state == "stale" {
		if sc.Cfg.MaxStalenessNs > 0 && in.AgeNs >= sc.Cfg.MaxStalenessNs {
			state = "staleold"
		} else {
			state = "staleok"
		}
	}

	if in.NilValue {
		state += "(nil value)"
	}

	if sc.WrapBackendErrs {
		state += "(decorated backend)"
	}

	if sc.PlainExpired {
		state += "(expired without item)"
	}

	if sc.ExpireAllFirst {
		state += "(ExpireAll before Get)"
	}

	return fmt.Sprintf("%s failCached=%v syncUpdate=%v failHard=%v maxStaleness=%v failedTTL=%d buildErr=%v api=%s",
		state, in.FailAgeNs >= 0, sc.Cfg.SyncUpdate, sc.Cfg.FailHard, sc.Cfg.MaxStalenessNs > 0, sc.Cfg.FailedUpdateTTLNs, sc.Clients[0][0].BuildFail, sc.API+"/"+sc.Backend)
}

// oracleC03 compares the lone Get with the documented decision table (README "Failover cache",
// FailoverConfig field comments); the table is not derived from the code.
func (r *foRun) oracleC03() {
	r.commonFO()

	out := r.e.out
	out.NonTrivial = true
	sc := r.sc
	in := sc.Init[0]
	o := r.ops[0]
	cell := r.c03Cell()
	out.Outcome = cell + " -> " + r.resultKind(o) + fmt.Sprintf(" builds=%d", len(r.builds))

	pre := Tok{K: "k0", ID: "pre"}
	own := Tok{K: "k0", ID: "b0.0"}
	buildErr := sc.Clients[0][0].BuildFail

	state := in.State
	if state == "stale" {
		if sc.Cfg.MaxStalenessNs > 0 && in.AgeNs >= sc.Cfg.MaxStalenessNs {
			state = "staleold"
		} else {
			state = "staleok"
		}
	}

	if sc.PlainExpired && state != "fresh" {
		// the backend cannot hand out the expired value: nothing to serve, nothing to fall back to
		state = "absent"

		out.probe("expired_entry_without_item")
	}

	bad := func(what, format string, args ...interface{}) {
		out.violate("C03."+what, cell, "cell [%s]: %s", cell, fmt.Sprintf(format, args...))
	}

	nb := len(r.builds)

	var b *buildRec
	if nb > 0 {
		b = r.builds[0]
	}

	isVal := func(t Tok) bool {
		if in.NilValue && t == pre {
			return o.err == nil && o.val == interface{}(Tok{K: "k0", ID: nilID}) // a cached nil interface
		}

		return o.err == nil && o.val == interface{}(t)
	}

	switch {
	case state == "fresh":
		if !isVal(pre) {
			bad("fresh", "fresh value must be returned, got (%v, %v)", o.val, o.err)
		}

		if nb != 0 {
			bad("fresh", "builder must not be invoked for a fresh value, invoked %d times", nb)
		}

	case in.FailAgeNs >= 0:
		var et ErrTok
		if !errors.As(o.err, &et) || et.ID != "prefail" {
			bad("failure-cached", "a failure is cached for the key: the cached error must be returned, got (%v, %v)", o.val, o.err)
		}

		if nb != 0 {
			bad("failure-cached", "builder must not be invoked while a failure is cached, invoked %d times", nb)
		}

	case state == "absent" || state == "staleold" || sc.Cfg.SyncUpdate:
		// synchronous build, exactly once
		if nb != 1 {
			bad("sync-build", "expected exactly one synchronous builder invocation, got %d", nb)

			break
		}

		if !(b.exited && b.exit < o.ret) {
			bad("sync-build", "Get returned (seq %d) before its synchronous build finished (seq %d)", o.ret, b.exit)
		}

		switch {
		case !buildErr:
			if !isVal(own) {
				bad("sync-build-ok", "the newly built value must be returned, got (%v, %v)", o.val, o.err)
			}
		case state == "absent" || sc.Cfg.FailHard:
			if o.err == nil || !errors.Is(o.err, error(b.err)) {
				bad("sync-build-err", "the builder error must be returned, got (%v, %v)", o.val, o.err)
			}
		case in.NilValue:
			// "unless ... none exists": whether a cached nil counts as a value to fall back to is
			// not stated; the builder error or the cached nil are both accepted
			if !isVal(pre) && !(o.err != nil && errors.Is(o.err, error(b.err))) {
				bad("sync-build-err-stale", "build failed: the builder error or the cached nil value must be returned, got (%v, %v)", o.val, o.err)
			}
		default:
			if !isVal(pre) {
				bad("sync-build-err-stale", "build failed, FailHard is off and a previously cached value exists: it must be served, got (%v, %v)", o.val, o.err)
			}
		}

	default:
		// acceptable stale value, background update
		if !isVal(pre) {
			bad("background", "the stale value must be returned immediately, got (%v, %v)", o.val, o.err)
		}

		if nb != 1 {
			bad("background", "expected exactly one background builder invocation, got %d", nb)

			break
		}

		if !(o.ret < b.exit) {
			bad("background", "Get returned (seq %d) only after the build finished (seq %d): the build did not run in background", o.ret, b.exit)
		}
	}

	if len(out.Violations) > 0 {
		return
	}

	// Backend content after quiescence.
	v, err := r.be.read(context.Background(), []byte("k0"))

	switch {
	case nb == 1 && !buildErr:
		if err != nil || v != interface{}(own) {
			bad("stored", "after a successful build the backend must hold the new value, read gives (%v, %v)", v, err)
		}
	case nb == 1 && buildErr && state == "staleok":
		if in.NilValue {
			if err != nil || v != interface{}(Tok{K: "k0", ID: nilID}) {
				bad("stored", "after a failed build the re-stored stale nil value must still be readable, read gives (%v, %v)", v, err)
			}
		} else if err != nil || v != interface{}(pre) {
			bad("stored", "after a failed build the re-stored stale value must still be readable, read gives (%v, %v)", v, err)
		}

		fallthrough
	case nb == 1 && buildErr:
		if sc.Cfg.FailedUpdateTTLNs != -1 {
			ce, rerr := r.api.ErrorsRead(context.Background(), []byte("k0"))
			if rerr != nil || !errors.Is(ce, error(b.err)) {
				bad("failure-cache", "after a failed build the failure cache must hold the builder error, read gives (%v, %v)", ce, rerr)
			}
		}
	}
}
