package sim

import (
	"math/rand/v2"
)

// C16: data-race freedom, decided by the simulator's happens-before detector over the
// accesses the instrumented library performs (see simrt/race.go). The programs are the
// concurrent workloads of the other engines plus an enumeration of operation pairs.

var c16Ops = []BEOp{
	{Kind: "write"}, {Kind: "write", HasTTL: true, TTLNs: -3600 * sec}, {Kind: "read"}, {Kind: "delete"},
	{Kind: "expireAll"}, {Kind: "deleteAll"}, {Kind: "len"}, {Kind: "walk"}, {Kind: "load"}, {Kind: "store"},
	{Kind: "dump"}, {Kind: "restore"}, {Kind: "sleep", SleepNs: 2 * ms}, // sleep = let a janitor cycle run
}

type c16Pair struct {
	a, b     int
	backend  string
	strategy int
}

var c16Pairs []c16Pair

func init() {
	for _, be := range []string{"sharded", "syncmap", "shardedOf"} {
		for st := 0; st < 3; st++ {
			for a := range c16Ops {
				for b := a; b < len(c16Ops); b++ {
					c16Pairs = append(c16Pairs, c16Pair{a, b, be, st})
				}
			}
		}
	}

	gens["C16"] = genC16
	beOracles["C16"] = func(r *beRun) {
		r.seqReach()
		r.e.out.NonTrivial = len(r.sc.Clients) >= 2
	}
	foOracles["C16"] = func(r *foRun) { r.commonFO() }
}

func genC16(r *rand.Rand, run int, tier string) *Scenario {
	switch {
	case run < 2*len(c16Pairs):
		// every unordered pair of backend operations on a shared key, two schedules each
		p := c16Pairs[run%len(c16Pairs)]
		sc := genBEBase(r, "conc")
		be := sc.BE
		be.Backend = p.backend
		be.Keys = [][]byte{[]byte("shared"), []byte("other")}
		be.Groups = []int{-1, -1}
		be.Cfg = BEConfig{TTLNs: 3600 * sec, Jitter: -1, Strategy: p.strategy, JanitorIntervalNs: ms, DeleteExpiredAfterNs: ms,
			CountSoftLimit: 1, EvictFraction: 0.5, Stats: chance(r, 0.3)}
		be.Root = []BEOp{{Kind: "write", Key: 0}, {Kind: "write", Key: 1, HasTTL: true, TTLNs: -3600 * sec}}
		be.Clients = [][]BEOp{{c16Ops[p.a]}, {c16Ops[p.b]}}

		if chance(r, 0.5) {
			// a third party keeps reading
			be.Clients = append(be.Clients, []BEOp{{Kind: "read"}, {Kind: "read", Key: 1}})
		}

		sc.NoFastPath = chance(r, 0.3)

		return sc
	}

	switch run % 6 {
	case 0, 1:
		sc := genC08(r, run, tier)

		return sc
	case 2, 3:
		sc := genFOBase(r, foShape{minClients: 2, maxClients: 5, maxKeys: 2, maxOps: 3, sleeps: true, skipRead: true, faults: true, callerTricks: false})

		if chance(r, 0.4) {
			// Every client works under a request context of its own that carries a TTL cell, and its builders
			// report the TTL they learned from the source (WithTTL(ctx, ttl, true), as documented). The cell is
			// never handed to a second goroutine by the application; the background update of a stale value is
			// a goroutine of the library.
			fo := sc.FO
			fo.OwnCtxTTLNs = pick(r, 3600*sec, 30*sec)
			fo.Cfg.SyncUpdate = false

			for i := range fo.Init {
				if chance(r, 0.7) {
					fo.Init[i].State, fo.Init[i].AgeNs = "stale", ms
				}
			}

			for c := range fo.Clients {
				for i := range fo.Clients[c] {
					op := &fo.Clients[c][i]
					if op.Kind != "get" {
						continue
					}

					op.OwnCtx, op.HasCtxTTL, op.CtxTTLNs = true, false, 0

					if chance(r, 0.6) {
						op.BuildTTLs = []TTLCall{{Ns: pick(r, sec, 10*sec, 7200*sec), Update: true}}
					}
				}
			}
		}

		return sc
	case 4:
		return genC15(r, 2, tier) // concurrent index workload
	default:
		return genC17(r, run, tier)
	}
}
