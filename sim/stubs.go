package sim

// TRScenario is the transfer/index engine's part of a scenario (defined later).
type TRScenario struct{}
