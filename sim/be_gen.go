package sim

import (
	"encoding/binary"
	"fmt"
	"math/bits"
	"math/rand/v2"
	"strings"

	"github.com/cespare/xxhash/v2"
)

const (
	xxP1 uint64 = 11400714785074694791
	xxP2 uint64 = 14029467366897019727
)

func xxRound(acc, in uint64) uint64 {
	acc += in * xxP2
	acc = bits.RotateLeft64(acc, 31)

	return acc * xxP1
}

func invOdd(a uint64) uint64 {
	x := a // Newton iteration for the inverse modulo 2^64
	for i := 0; i < 6; i++ {
		x *= 2 - a*x
	}

	return x
}

// collide returns a 64-byte key with the same xxhash64 as base: lane's word of the first
// stripe is replaced by w, the word of the second stripe is adjusted so that the lane
// accumulator (hence the hash) is unchanged.
func collide(base []byte, lane int, w uint64) []byte {
	if len(base) != 64 {
		panic("collide needs a 64-byte key")
	}

	p1, p2 := xxP1, xxP2
	seeds := [4]uint64{p1 + p2, p2, 0, -p1}
	out := append([]byte(nil), base...)
	a := binary.LittleEndian.Uint64(base[8*lane:])
	b := binary.LittleEndian.Uint64(base[32+8*lane:])
	acc1, acc1n := xxRound(seeds[lane], a), xxRound(seeds[lane], w)
	bn := b + (acc1-acc1n)*invOdd(xxP2)
	binary.LittleEndian.PutUint64(out[8*lane:], w)
	binary.LittleEndian.PutUint64(out[32+8*lane:], bn)

	if xxhash.Sum64(out) != xxhash.Sum64(base) || string(out) == string(base) {
		panic("collision construction failed")
	}

	return out
}

// collisionFamily returns n distinct 64-byte keys with equal xxhash64.
func collisionFamily(r *rand.Rand, n int) [][]byte {
	base := make([]byte, 64)
	for i := range base {
		base[i] = byte('A' + r.IntN(26))
	}

	fam := [][]byte{base}
	for len(fam) < n {
		fam = append(fam, collide(base, r.IntN(4), r.Uint64()))
	}

	return fam
}

// genKeys returns a small key alphabet: empty, one byte, long, binary, common prefix, and
// optionally a family of colliding keys. groups[i] >= 0 marks collision families.
// shortKeyFamily: short binary keys that a hand-rolled "fast path for small keys" could confuse with each
// other: a base of 0-7 bytes, its zero-extensions up to 9 bytes, and 8-byte keys made of the base, zero
// padding and a last byte that looks like a length, sign or tag byte.
func shortKeyFamily(r *rand.Rand) [][]byte {
	l := r.IntN(8)
	base := make([]byte, l)

	for i := range base {
		base[i] = pick(r, byte(0), 1, 'a', 0x7f, 0x80, 0xff, byte(r.IntN(256)))
	}

	var rest [][]byte

	for n := l + 1; n <= 9; n++ {
		rest = append(rest, append(append([]byte(nil), base...), make([]byte, n-l)...))
	}

	for _, last := range []byte{1, byte(l), 8, 0x7f, 0x80, byte(0xf8 + l), 0xff} {
		k := make([]byte, 8)
		copy(k, base)
		k[7] = last
		rest = append(rest, k)
	}

	r.Shuffle(len(rest), func(i, j int) { rest[i], rest[j] = rest[j], rest[i] })

	fam := [][]byte{base}
	seen := map[string]bool{string(base): true}

	for _, k := range rest {
		if len(fam) < 6 && !seen[string(k)] {
			seen[string(k)] = true

			fam = append(fam, k)
		}
	}

	return fam
}

func genKeys(r *rand.Rand, max int, collisions int) (keys [][]byte, groups []int) {
	if collisions <= 1 && chance(r, 0.1) {
		for _, k := range shortKeyFamily(r) {
			keys = append(keys, k)
			groups = append(groups, -1)
		}

		return keys, groups
	}

	pool := [][]byte{
		[]byte(""), []byte("a"), []byte(strings.Repeat("L", 300)), {0, 1, 0, 255, 0}, []byte("pre"), []byte("prefix"), []byte("k1"), []byte("k2"),
	}

	if chance(r, 0.1) {
		pool = append(pool, []byte(strings.Repeat("H", pick(r, 4097, 5000, 70000))))
	}

	r.Shuffle(len(pool), func(i, j int) { pool[i], pool[j] = pool[j], pool[i] })

	n := 1 + r.IntN(max)
	for i := 0; i < n && i < len(pool); i++ {
		keys = append(keys, pool[i])
		groups = append(groups, -1)
	}

	if collisions > 1 {
		for _, k := range collisionFamily(r, collisions) {
			keys = append(keys, k)
			groups = append(groups, 0)
		}
	}

	return keys, groups
}

func genBEBase(r *rand.Rand, mode string) *Scenario {
	sc := &Scenario{Engine: "be", TickNs: pick(r, int64(1), 100, 100, 1000), MapSeed: r.Uint64(), JitterSeed: r.Uint64()}
	sc.NoFastPath = chance(r, 0.1)
	sc.BE = &BEScenario{Mode: mode, Backend: pick(r, "sharded", "syncmap", "shardedOf")}
	if sc.BE.Backend != "shardedOf" && chance(r, 0.25) {
		sc.BE.ValRep = pick(r, "slice", "map", "box", "ptr")
	}

	sc.Sched = genSched(r, 60)

	return sc
}

var ttlChoices = []int64{1, 50, ms, 20 * ms, sec, 60 * sec, 3600 * sec, 24 * 3600 * sec, 365 * 24 * 3600 * sec}

func genSeqOps(r *rand.Rand, nKeys, n int, mutate bool) []BEOp {
	ops := genSeqOps0(r, nKeys, n, mutate)

	for i := range ops {
		if ops[i].Kind != "sleep" && chance(r, 0.04) {
			ops[i].CtxDone = true
		}
	}

	return ops
}

func genSeqOps0(r *rand.Rand, nKeys, n int, mutate bool) []BEOp {
	var ops []BEOp

	for i := 0; i < n; i++ {
		k := r.IntN(nKeys)

		switch x := r.IntN(100); {
		case x < 28:
			op := BEOp{Kind: "write", Key: k}
			if chance(r, 0.5) {
				op.HasTTL = true
				op.TTLNs = pick(r, ttlChoices...)

				if chance(r, 0.25) {
					op.TTLNs = -op.TTLNs
				}

				if chance(r, 0.1) {
					op.TTLNs = 0
				}
			}

			op.SkipRead = chance(r, 0.05)
			op.Mutate = mutate && chance(r, 0.5)
			op.NilVal = chance(r, 0.06)
			ops = append(ops, op)
		case x < 52:
			ops = append(ops, BEOp{Kind: "read", Key: k, SkipRead: chance(r, 0.1), Mutate: mutate && chance(r, 0.3)})
		case x < 62:
			ops = append(ops, BEOp{Kind: "delete", Key: k, Mutate: mutate && chance(r, 0.3)})
		case x < 66:
			ops = append(ops, BEOp{Kind: "expireAll"})
		case x < 69:
			ops = append(ops, BEOp{Kind: "deleteAll"})
		case x < 75:
			ops = append(ops, BEOp{Kind: "len"})
		case x < 79:
			ops = append(ops, BEOp{Kind: "walk"})
		case x < 81:
			// Walk with a failing callback / Dump into a failing writer (then the sequence goes on)
			if chance(r, 0.3) {
				ops = append(ops, BEOp{Kind: "walkDel", SleepNs: int64(r.IntN(1 << 16))})
			} else if chance(r, 0.5) {
				ops = append(ops, BEOp{Kind: "walkErr", SleepNs: int64(r.IntN(3))})
			} else {
				ops = append(ops, BEOp{Kind: "dumpErr", SleepNs: int64(r.IntN(200))})
			}
		case x < 86:
			ops = append(ops, BEOp{Kind: "load", Key: k})
		case x < 91:
			ops = append(ops, BEOp{Kind: "store", Key: k, Mutate: mutate && chance(r, 0.5)})
		default:
			// sleeps stay at least 1ms away from the TTL magnitudes so that the operation
			// window never straddles an expiry except in boundary scenarios
			ops = append(ops, BEOp{Kind: "sleep", SleepNs: pick(r, 3, 10*ms+7, 500*ms, 30*sec, 5000*sec, 2*24*3600*sec)})
		}
	}

	return ops
}

func init() {
	gens["C07"] = func(r *rand.Rand, _ int, _ string) *Scenario {
		sc := genBEBase(r, "seq")
		be := sc.BE
		coll := 0

		if chance(r, 0.2) {
			coll = 2
		}

		be.Keys, be.Groups = genKeys(r, 5, coll)
		be.Cfg = BEConfig{TTLNs: pick(r, int64(0), -1, sec, 100*ms, 3600*sec, -sec, -3600*sec), Jitter: -1, Strategy: r.IntN(3), Stats: chance(r, 0.2), Logger: chance(r, 0.1)}
		n := 1 + r.IntN(40)
		if genTier == "thorough" && chance(r, 0.2) {
			n = 40 + r.IntN(80)
		}

		be.Clients = [][]BEOp{genSeqOps(r, len(be.Keys), n, false)}

		return sc
	}
	beOracles["C07"] = func(r *beRun) {
		m := newRefModel(r)
		m.checkSeq("C07", r.recs)
		r.seqReach()
	}

	shrinkers["be"] = shrinkBE
}

// retainedErrors: an ErrExpired error handed out earlier keeps reporting the value it was created for, whatever
// happened to the cache since (the library never changes a stored value in place; the expiry instant may move,
// ExpireAll re-stamps entries). A caller holds such errors across later operations - Failover does.
func (r *beRun) retainedErrors(prop string) {
	for _, rec := range r.recs {
		if rec.kind != "read" || !rec.done || !rec.expOK {
			continue
		}

		v, _, ok := r.bk.expiredItem(rec.err)
		v = nilTok(rec.key, v)

		if !ok || v != rec.expVal {
			r.e.out.violate(prop+".retained", r.sc.Backend+" expired-item-changed-after-return", "%s read(%q) returned ErrExpired carrying %v; after the rest of the run the same error object carries (%v, ok=%v): it refers to storage that was reused for something else", rec.id(), rec.key, rec.expVal, v, ok)

			return
		}

		r.e.out.probe("retained_expired_item_rechecked")
	}
}

// seqReach computes reach measures for sequential runs.
func (r *beRun) seqReach() {
	out := r.e.out
	kinds := map[string]int{}

	r.retainedErrors(r.e.sc.Prop)

	for _, rec := range r.recs {
		k := rec.kind

		switch rec.kind {
		case "read":
			k = "read:" + strings.SplitN(errKind(rec.err), ":", 2)[0]
		case "delete":
			k = "delete:" + strings.SplitN(errKind(rec.err), ":", 2)[0]
		}

		kinds[k]++
	}

	for k := range kinds {
		out.probe(k)
	}

	out.NonTrivial = len(r.recs) >= 2
	out.Outcome = fmt.Sprint(len(kinds), "kinds/", len(r.recs), "ops")
}

func shrinkBE(sc *Scenario, yield func(c *Scenario) bool) {
	be := sc.BE

	for i := range be.Clients {
		if len(be.Clients) > 1 {
			c := cloneScenario(sc)
			c.BE.Clients = append(c.BE.Clients[:i], c.BE.Clients[i+1:]...)

			if !yield(c) {
				return
			}
		}
	}

	// drop chunks of operations, then single operations
	for i := range be.Clients {
		for n := len(be.Clients[i]) / 2; n >= 1; n /= 2 {
			for j := 0; j+n <= len(be.Clients[i]); j += n {
				c := cloneScenario(sc)
				c.BE.Clients[i] = append(c.BE.Clients[i][:j], c.BE.Clients[i][j+n:]...)

				if !yield(c) {
					return
				}
			}
		}
	}

	for n := len(be.Root) / 2; n >= 1; n /= 2 {
		for j := 0; j+n <= len(be.Root); j += n {
			c := cloneScenario(sc)
			c.BE.Root = append(c.BE.Root[:j], c.BE.Root[j+n:]...)

			if !yield(c) {
				return
			}
		}
	}

	simplify := func(list func(c *Scenario) []BEOp) bool {
		for j := range list(sc) {
			mods := []func(o *BEOp) bool{
				func(o *BEOp) bool { ok := o.HasTTL; o.HasTTL = false; o.TTLNs = 0; return ok },
				func(o *BEOp) bool { ok := o.SkipRead; o.SkipRead = false; return ok },
				func(o *BEOp) bool { ok := o.Mutate; o.Mutate = false; return ok },
				func(o *BEOp) bool { ok := o.NilVal; o.NilVal = false; return ok },
				func(o *BEOp) bool { ok := o.CtxDone; o.CtxDone = false; return ok },
				func(o *BEOp) bool { ok := o.Key != 0; o.Key = 0; return ok },
			}

			for _, m := range mods {
				c := cloneScenario(sc)
				if !m(&list(c)[j]) {
					continue
				}

				if !yield(c) {
					return false
				}
			}
		}

		return true
	}

	for i := range be.Clients {
		i := i
		if !simplify(func(c *Scenario) []BEOp { return c.BE.Clients[i] }) {
			return
		}
	}

	if !simplify(func(c *Scenario) []BEOp { return c.BE.Root }) {
		return
	}

	cfgMods := []func(c *BEScenario) bool{
		func(c *BEScenario) bool { ok := c.ValRep != ""; c.ValRep = ""; return ok },
		func(c *BEScenario) bool { ok := c.Cfg.Stats; c.Cfg.Stats = false; return ok },
		func(c *BEScenario) bool { ok := c.Cfg.Logger; c.Cfg.Logger, c.Cfg.LogMask = false, 0; return ok },
		func(c *BEScenario) bool { ok := c.Cfg.LogMask != 0; c.Cfg.LogMask = 0; return ok },
		func(c *BEScenario) bool { ok := c.Cfg.Strategy != 0; c.Cfg.Strategy = 0; return ok },
		func(c *BEScenario) bool { ok := c.Cfg.TTLNs != 0; c.Cfg.TTLNs = 0; return ok },
		func(c *BEScenario) bool { ok := c.Backend != "sharded"; c.Backend = "sharded"; return ok },
	}

	for _, m := range cfgMods {
		c := cloneScenario(sc)
		if !m(c.BE) {
			continue
		}

		if !yield(c) {
			return
		}
	}

	if sc.NoFastPath {
		c := cloneScenario(sc)
		c.NoFastPath = false

		if !yield(c) {
			return
		}
	}
}
