package sim

import (
	"fmt"
	"math/rand/v2"
	"strings"
	"time"
)

const (
	ms  = int64(time.Millisecond)
	sec = int64(time.Second)
)

// foShape are the knobs a property's generator fixes; everything else is swarm-randomised.
type foShape struct {
	minClients, maxClients int
	maxKeys                int
	maxOps                 int
	faults                 bool
	callerTricks           bool // cancel / mutate key / reuse buffer
	ctxTTL                 bool
	skipRead               bool
	sleeps                 bool
}

func genFOBase(r *rand.Rand, sh foShape) *Scenario {
	if genTier == "thorough" && chance(r, 0.3) {
		// deeper bounds in the thorough tier
		sh.maxOps += 2

		if sh.maxKeys > 1 {
			sh.maxKeys++
		}

		if sh.maxClients > sh.minClients {
			sh.maxClients += 2
		}
	}

	sc := &Scenario{Engine: "fo", TickNs: pick(r, int64(1), 100, 100, 1000), MapSeed: r.Uint64(), JitterSeed: r.Uint64()}
	sc.JitterMode = pick(r, "", "zero", "max", "prng")
	sc.NoFastPath = chance(r, 0.1)

	fo := &FOScenario{}
	sc.FO = fo

	switch r.IntN(12) {
	case 0, 1, 2, 3:
		fo.API, fo.Backend = "failover", "sharded"
	case 4, 5, 6:
		fo.API, fo.Backend = "failover", "syncmap"
	case 7:
		fo.API, fo.Backend = "failover", "shardedOfAny"
	case 8:
		fo.API, fo.Backend = "failoverOfAny", pick(r, "sharded", "syncmap")
	default:
		fo.API, fo.Backend = "failoverOf", "shardedOf"
	}

	if fo.API != "failoverOf" && chance(r, 0.35) {
		fo.ValRep = pick(r, "slice", "map", "box", "ptr")
	}

	fo.Cfg = FOConfig{
		SyncUpdate: chance(r, 0.4), SyncRead: chance(r, 0.4), FailHard: chance(r, 0.3),
		MaxStalenessNs:    pick(r, int64(0), 0, 10*sec, 10*sec, 500*ms),
		FailedUpdateTTLNs: pick(r, int64(0), 0, -1, 5*sec, 300*ms),
		UpdateTTLNs:       pick(r, int64(0), 0, sec, ms, 5*sec),
		Logger:            chance(r, 0.3), Stats: chance(r, 0.3),
	}
	fo.Cfg.ObserveMutability = fo.Cfg.Stats && chance(r, 0.3)
	fo.BackendTTLNs = pick(r, int64(0), 10*sec, 10*sec, 50*ms, sec)
	fo.BackendJitter = pick(r, -1.0, -1.0, 0, 0.5)

	nk := 1 + r.IntN(sh.maxKeys)
	for i := 0; i < nk; i++ {
		fo.Keys = append(fo.Keys, fmt.Sprintf("k%d", i))
	}

	if chance(r, 0.12) {
		// unusual but valid keys: empty, NUL bytes, a key that extends another one, long, non-ASCII
		odd := []string{"", "\x00", "k0\x00", strings.Repeat("L", 300), "ключ", "k0"}
		r.Shuffle(len(odd), func(i, j int) { odd[i], odd[j] = odd[j], odd[i] })

		for i := 0; i < nk && i < len(odd); i++ {
			fo.Keys[i] = odd[i]
		}
	}

	for i := 0; i < nk; i++ {
		in := FOInit{Key: i, FailAgeNs: -1}

		switch r.IntN(4) {
		case 0:
			in.State = "absent"
		case 1:
			in.State = "fresh"
		case 2: // stale within MaxStaleness (if set)
			in.State = "stale"
			in.AgeNs = pick(r, ms, 100*ms, sec, 3*sec)

			if fo.Cfg.MaxStalenessNs > 0 && in.AgeNs >= fo.Cfg.MaxStalenessNs {
				in.AgeNs = fo.Cfg.MaxStalenessNs / 4
			}
		default: // stale beyond MaxStaleness
			in.State = "stale"
			in.AgeNs = pick(r, 20*sec, 60*sec, 3600*sec)
		}

		if fo.Cfg.FailedUpdateTTLNs >= 0 && chance(r, 0.12) {
			in.FailAgeNs = pick(r, int64(0), ms, sec)
		}

		fo.Init = append(fo.Init, in)
	}

	nc := sh.minClients
	if sh.maxClients > sh.minClients {
		// mostly few clients
		nc += pick(r, 0, 0, 1, 1, 2, r.IntN(sh.maxClients-sh.minClients+1))
		if nc > sh.maxClients {
			nc = sh.maxClients
		}
	}

	totalOps := 0

	for c := 0; c < nc; c++ {
		n := 1 + r.IntN(sh.maxOps)

		var ops []FOOp

		for i := 0; i < n; i++ {
			if sh.sleeps && chance(r, 0.2) {
				ops = append(ops, FOOp{Kind: "sleep", SleepNs: pick(r, ms, 200*ms, sec, 3*sec, 12*sec, 25*sec, 70*sec)})

				continue
			}

			op := FOOp{Kind: "get", Key: r.IntN(nk)}
			op.BuildFail = chance(r, 0.3)
			op.BuildSleepNs = pick(r, int64(0), 0, 0, ms, 2*sec, 7*sec)

			if sh.ctxTTL && chance(r, 0.3) {
				op.HasCtxTTL = true
				op.CtxTTLNs = pick(r, int64(0), sec, 30*sec, -sec, ms)
			}

			if sh.skipRead && chance(r, 0.15) {
				op.SkipRead = true
			}

			if sh.callerTricks {
				if chance(r, 0.25) {
					op.Cancel = pick(r, "after", "after", "deadline", "before")
				}

				if chance(r, 0.3) {
					if nk > 1 && chance(r, 0.7) {
						op.MutateKey = fmt.Sprintf("key:%d", (op.Key+1+r.IntN(nk-1))%nk)
					} else {
						op.MutateKey = "garbage"
					}
				}

				if chance(r, 0.3) {
					op.ReuseBuf = true
				}
			}

			ops = append(ops, op)
			totalOps++
		}

		fo.Clients = append(fo.Clients, ops)
	}

	if sh.faults && chance(r, 0.5) {
		nf := 1 + r.IntN(2)
		for i := 0; i < nf; i++ {
			switch r.IntN(3) {
			case 0:
				fo.Faults.ReadErrAt = append(fo.Faults.ReadErrAt, r.IntN(2*totalOps+1))
			case 1:
				fo.Faults.WriteErrAt = append(fo.Faults.WriteErrAt, r.IntN(totalOps+1))
			default:
				fo.Faults.RefreshErrAt = append(fo.Faults.RefreshErrAt, r.IntN(2))
			}
		}
	}

	sc.Sched = genSched(r, 20+totalOps*12)

	return sc
}

func init() {
	gens["C01"] = func(r *rand.Rand, run int, _ string) *Scenario {
		// a quarter of the runs: callers cancel, rewrite their key slice with another key of the scenario or re-use one
		// buffer after Get returned (a background update that still looks at the caller's slice releases another key's lock)
		sc := genFOBase(r, foShape{minClients: 2, maxClients: 8, maxKeys: 3, maxOps: 4, sleeps: true, skipRead: true, callerTricks: run%4 == 1})

		if run%20 == 19 {
			// the Failover creates backend and failure cache itself (BackendConfig path of NewFailover*)
			sc.FO.DefaultBackend = true
			sc.FO.BackendCfg = BEConfig{CountSoftLimit: uint64(r.IntN(3)), EvictFraction: pick(r, 0, 0.5), Strategy: r.IntN(3)}

			if sc.FO.Backend == "syncmap" || sc.FO.Backend == "shardedOfAny" {
				sc.FO.Backend = "sharded"
			}
		}

		return sc
	}

	shrinkers["fo"] = shrinkFO
}

// shrinkFO yields simplified copies of an FO scenario.
func shrinkFO(sc *Scenario, yield func(c *Scenario) bool) {
	fo := sc.FO

	// drop a client
	for i := range fo.Clients {
		if len(fo.Clients) <= 1 {
			break
		}

		c := cloneScenario(sc)
		c.FO.Clients = append(c.FO.Clients[:i], c.FO.Clients[i+1:]...)

		if !yield(c) {
			return
		}
	}

	// drop an operation
	for i := range fo.Clients {
		for j := range fo.Clients[i] {
			c := cloneScenario(sc)
			c.FO.Clients[i] = append(c.FO.Clients[i][:j], c.FO.Clients[i][j+1:]...)

			if !yield(c) {
				return
			}
		}
	}

	// drop faults
	for i := range fo.Faults.ReadErrAt {
		c := cloneScenario(sc)
		c.FO.Faults.ReadErrAt = append(c.FO.Faults.ReadErrAt[:i], c.FO.Faults.ReadErrAt[i+1:]...)

		if !yield(c) {
			return
		}
	}

	for i := range fo.Faults.WriteErrAt {
		c := cloneScenario(sc)
		c.FO.Faults.WriteErrAt = append(c.FO.Faults.WriteErrAt[:i], c.FO.Faults.WriteErrAt[i+1:]...)

		if !yield(c) {
			return
		}
	}

	for i := range fo.Faults.RefreshErrAt {
		c := cloneScenario(sc)
		c.FO.Faults.RefreshErrAt = append(c.FO.Faults.RefreshErrAt[:i], c.FO.Faults.RefreshErrAt[i+1:]...)

		if !yield(c) {
			return
		}
	}

	// simplify initial state
	for i := range fo.Init {
		if fo.Init[i].State != "absent" {
			c := cloneScenario(sc)
			c.FO.Init[i].State = "absent"

			if !yield(c) {
				return
			}
		}

		if fo.Init[i].FailAgeNs >= 0 {
			c := cloneScenario(sc)
			c.FO.Init[i].FailAgeNs = -1

			if !yield(c) {
				return
			}
		}
	}

	// simplify operations
	for i := range fo.Clients {
		for j := range fo.Clients[i] {
			op := fo.Clients[i][j]
			mods := []func(o *FOOp) bool{
				func(o *FOOp) bool { ok := o.BuildSleepNs != 0; o.BuildSleepNs = 0; return ok },
				func(o *FOOp) bool { ok := o.BuildFail; o.BuildFail = false; return ok },
				func(o *FOOp) bool { ok := o.BuildErrKind != ""; o.BuildErrKind = ""; return ok },
				func(o *FOOp) bool { ok := o.NestKey != 0; o.NestKey = 0; return ok },
				func(o *FOOp) bool { ok := o.BuildNil; o.BuildNil = false; return ok },
				func(o *FOOp) bool { ok := o.BuildPanic; o.BuildPanic = false; return ok },
				func(o *FOOp) bool { ok := o.HasCtxTTL; o.HasCtxTTL = false; o.CtxTTLNs = 0; return ok },
				func(o *FOOp) bool { ok := o.SkipRead; o.SkipRead = false; return ok },
				func(o *FOOp) bool { ok := o.Cancel != ""; o.Cancel = ""; return ok },
				func(o *FOOp) bool { ok := o.MutateKey != ""; o.MutateKey = ""; return ok },
				func(o *FOOp) bool { ok := o.ReuseBuf; o.ReuseBuf = false; return ok },
				func(o *FOOp) bool {
					ok := o.UseShared
					o.UseShared, o.HasCtxTTL, o.CtxTTLNs = false, false, 0

					return ok
				},
				func(o *FOOp) bool { ok := len(o.BuildTTLs) > 0; o.BuildTTLs = nil; return ok },
				func(o *FOOp) bool { ok := o.Key != 0; o.Key = 0; return ok },
			}

			_ = op

			for _, m := range mods {
				c := cloneScenario(sc)
				if !m(&c.FO.Clients[i][j]) {
					continue
				}

				if !yield(c) {
					return
				}
			}
		}
	}

	// configuration back to defaults
	cfgMods := []func(c *FOScenario) bool{
		func(c *FOScenario) bool { ok := c.Cfg.Logger; c.Cfg.Logger, c.Cfg.LogMask = false, 0; return ok },
		func(c *FOScenario) bool { ok := c.Cfg.LogMask != 0; c.Cfg.LogMask = 0; return ok },
		func(c *FOScenario) bool {
			ok := c.Cfg.Stats
			c.Cfg.Stats = false
			c.Cfg.ObserveMutability = false
			return ok
		},
		func(c *FOScenario) bool { ok := c.Cfg.ObserveMutability; c.Cfg.ObserveMutability = false; return ok },
		func(c *FOScenario) bool { ok := c.ValRep != ""; c.ValRep = ""; return ok },
		func(c *FOScenario) bool { ok := c.WrapBackendErrs; c.WrapBackendErrs = false; return ok },
		func(c *FOScenario) bool { ok := c.PlainExpired; c.PlainExpired = false; return ok },
		func(c *FOScenario) bool { ok := c.ExpireAllFirst; c.ExpireAllFirst = false; return ok },
		func(c *FOScenario) bool { ok := c.Cfg.SyncRead; c.Cfg.SyncRead = false; return ok },
		func(c *FOScenario) bool { ok := c.Cfg.SyncUpdate; c.Cfg.SyncUpdate = false; return ok },
		func(c *FOScenario) bool { ok := c.Cfg.FailHard; c.Cfg.FailHard = false; return ok },
		func(c *FOScenario) bool { ok := c.Cfg.MaxStalenessNs != 0; c.Cfg.MaxStalenessNs = 0; return ok },
		func(c *FOScenario) bool { ok := c.Cfg.FailedUpdateTTLNs != 0; c.Cfg.FailedUpdateTTLNs = 0; return ok },
		func(c *FOScenario) bool { ok := c.Cfg.UpdateTTLNs != 0; c.Cfg.UpdateTTLNs = 0; return ok },
		func(c *FOScenario) bool { ok := c.BackendTTLNs != 0; c.BackendTTLNs = 0; return ok },
		func(c *FOScenario) bool { ok := c.BackendJitter != -1; c.BackendJitter = -1; return ok },
		func(c *FOScenario) bool {
			ok := c.API != "failover" || c.Backend != "sharded"
			c.API, c.Backend = "failover", "sharded"

			return ok
		},
	}

	for _, m := range cfgMods {
		c := cloneScenario(sc)
		if !m(c.FO) {
			continue
		}

		if !yield(c) {
			return
		}
	}

	if sc.NoFastPath {
		c := cloneScenario(sc)
		c.NoFastPath = false

		if !yield(c) {
			return
		}
	}

	if sc.JitterMode != "" {
		c := cloneScenario(sc)
		c.JitterMode = ""

		if !yield(c) {
			return
		}
	}
}
