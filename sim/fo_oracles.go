package sim

import (
	"context"
	"errors"
	"fmt"
	"math/rand/v2"
	"strings"
	"time"

	"github.com/bool64/cache"
	zs "github.com/bool64/cache/zzverifsim"
)

func init() {
	foOracles["C02"] = (*foRun).oracleC02
	foOracles["C04"] = (*foRun).oracleC04
	foOracles["C05"] = (*foRun).oracleC05
	foOracles["C06"] = (*foRun).oracleC06
	foOracles["C09"] = (*foRun).oracleC09
	foOracles["C18"] = (*foRun).oracleC18

	gens["C02"] = func(r *rand.Rand, run int, _ string) *Scenario {
		if run%2 == 1 {
			// Families of c02Sweep runs share one small scenario; the fault position sweeps over
			// every backend call ordinal: Read ordinals 0..7, then Write ordinals 0..7.
			slot := run / 2
			pos := slot % c02Sweep
			rf := newRng(genSeed, uint64(slot/c02Sweep), 202)
			sc := genFOBase(rf, foShape{minClients: 1, maxClients: 3, maxKeys: 2, maxOps: 2, skipRead: true})
			sc.FO.Faults = FOFaults{}

			if pos < c02Sweep/2 {
				sc.FO.Faults.ReadErrAt = []int{pos}
			} else {
				sc.FO.Faults.WriteErrAt = []int{pos - c02Sweep/2}
			}

			// the schedule still varies inside a family
			sc.Sched = genSched(r, 60)

			return sc
		}

		if run%8 == 2 {
			return genFOExpireAllRace(r)
		}

		if run%8 == 6 {
			return genC02BgWaiters(r)
		}

		// a quarter of the random runs: callers also rewrite / reuse their key buffers after Get returned
		// (a result that lands under another key is a value "belonging to another key")
		return genFOBase(r, foShape{minClients: 1, maxClients: 6, maxKeys: 3, maxOps: 4, sleeps: true, skipRead: true, faults: true, ctxTTL: false, callerTricks: run%8 == 0})
	}
	gens["C04"] = func(r *rand.Rand, run int, _ string) *Scenario {
		if run%8 == 3 || run%8 == 7 {
			return genC04Waiters(r)
		}

		if run%8 == 5 {
			return genC04LateReaders(r)
		}

		sc := genFOBase(r, foShape{minClients: 1, maxClients: 5, maxKeys: 3, maxOps: 4, sleeps: true, skipRead: true, faults: true, callerTricks: true})
		sc.FO.Followup = true

		// builders may also fail by panicking (recovered by the caller)
		if chance(r, 0.25) {
			for c := range sc.FO.Clients {
				for i := range sc.FO.Clients[c] {
					if sc.FO.Clients[c][i].Kind == "get" && chance(r, 0.3) {
						sc.FO.Clients[c][i].BuildPanic = true
					}
				}
			}
		}

		return sc
	}
	gens["C05"] = genC05
	gens["C06"] = genC06
	gens["C18"] = genC18
}

const c02Sweep = 16

// genC04Waiters: several Gets on one key that are all runnable from the start: a quick first build, waiters
// that find its lock, and later owners (SkipRead, or after an uncached failure) whose builders sleep for
// seconds. A waiter is bound to the build it found; it must not end up waiting for a later owner's builder.
// The debug logger is on, so that the moment a Get starts waiting is observable (C04.R6).
func genC04Waiters(r *rand.Rand) *Scenario {
	sc := genFOBase(r, foShape{minClients: 3, maxClients: 6, maxKeys: 1, maxOps: 1})
	fo := sc.FO
	fo.Faults = FOFaults{}
	fo.Cfg.Logger = true
	fo.Cfg.FailedUpdateTTLNs = pick(r, int64(-1), -1, 0)
	fo.Cfg.SyncRead = chance(r, 0.5)
	fo.Followup = true

	for i := range fo.Init {
		fo.Init[i] = FOInit{Key: i, State: pick(r, "absent", "absent", "stale"), AgeNs: 3600 * sec, FailAgeNs: -1}
	}

	if fo.Cfg.MaxStalenessNs == 0 {
		fo.Cfg.MaxStalenessNs = 10 * sec // a stale value that old is not servable: Gets wait
	}

	for c := range fo.Clients {
		fo.Clients[c] = []FOOp{{Kind: "get", Key: 0}}
		op := &fo.Clients[c][0]

		switch {
		case c == 0:
			op.BuildFail = chance(r, 0.5)
		case chance(r, 0.5):
			op.SkipRead = true
			op.BuildSleepNs = pick(r, 2*sec, 7*sec)
			// a forced rebuild that arrives a few dozen scheduling steps later (the clock ticks once per step)
			fo.Clients[c] = []FOOp{{Kind: "sleep", SleepNs: pick(r, int64(10), 20, 30, 50, 80) * sc.TickNs}, *op}
		default:
			op.BuildSleepNs = pick(r, int64(0), 2*sec)
			op.BuildFail = chance(r, 0.3)
		}
	}

	sc.NoFastPath = true
	sc.Sched = genSched(r, 120)

	// the interesting orders keep one Get paused for a long stretch while others run to completion: priority
	// schedules with a few change points do that far more often than uniform random choice
	if chance(r, 0.7) {
		sc.Sched = SchedSpec{Kind: "pct", Seed: r.Uint64(), Depth: 2 + r.IntN(3), Horizon: 40 + r.IntN(80)}
	}

	return sc
}

// genC02BgWaiters: a waiter on a BACKGROUND update (a forced refresh, or a Get that finds the re-stored copy expired
// again, while the update of a stale value runs detached from the Get that started it), and Gets of other, missing
// keys that arrive within a few scheduling steps of the end of that update: the waiter picks its result up while the
// frontend is already busy with other keys' locks.
func genC02BgWaiters(r *rand.Rand) *Scenario {
	sc := genFOBase(r, foShape{minClients: 3, maxClients: 5, maxKeys: 3, maxOps: 1})
	fo := sc.FO
	fo.Faults = FOFaults{}
	fo.Cfg.SyncUpdate = false
	fo.Cfg.SyncRead = chance(r, 0.5)
	fo.Cfg.MaxStalenessNs = 0
	fo.Cfg.UpdateTTLNs = pick(r, int64(0), ms)
	fo.Cfg.Logger = chance(r, 0.5)
	fo.BackendTTLNs = 3600 * sec
	fo.BackendJitter = -1

	for len(fo.Keys) < 3 {
		fo.Keys = append(fo.Keys, fmt.Sprintf("k%d", len(fo.Keys)))
	}

	fo.Init = []FOInit{{Key: 0, State: "stale", AgeNs: sec, FailAgeNs: -1}, {Key: 1, State: "absent", FailAgeNs: -1}, {Key: 2, State: "absent", FailAgeNs: -1}}
	build := pick(r, sec, 2*sec)

	for c := range fo.Clients {
		switch {
		case c == 0:
			fo.Clients[c] = []FOOp{{Kind: "get", Key: 0, BuildSleepNs: build}}
		case c == 1:
			// arrives while the background update runs and cannot be served from the backend
			fo.Clients[c] = []FOOp{{Kind: "sleep", SleepNs: int64(20+r.IntN(60)) * sc.TickNs}, {Kind: "get", Key: 0, SkipRead: true}}
		default:
			fo.Clients[c] = []FOOp{{Kind: "sleep", SleepNs: build + int64(r.IntN(160)-40)*sc.TickNs}, {Kind: "get", Key: 1 + r.IntN(2), BuildFail: chance(r, 0.2)}}
		}
	}

	sc.NoFastPath = true
	sc.Sched = genSched(r, 200)

	if chance(r, 0.6) {
		sc.Sched = SchedSpec{Kind: "pct", Seed: r.Uint64(), Depth: 2 + r.IntN(3), Horizon: 80 + r.IntN(120)}
	}

	return sc
}

// genC04LateReaders: a long update of a stale but servable value (longer than UpdateTTL, so the temporary re-store
// expires again while the update is still running) and other Gets of the key that arrive within a few scheduling
// steps of the moment the update finishes: around the owner's final store and the release of the key lock, where a
// reader is a waiter one step earlier and an ordinary cache hit one step later.
func genC04LateReaders(r *rand.Rand) *Scenario {
	sc := genFOBase(r, foShape{minClients: 2, maxClients: 4, maxKeys: 1, maxOps: 1})
	fo := sc.FO
	fo.Faults = FOFaults{}
	fo.Cfg.SyncUpdate = chance(r, 0.3)
	fo.Cfg.SyncRead = chance(r, 0.5)
	fo.Cfg.MaxStalenessNs = 0
	fo.Cfg.UpdateTTLNs = pick(r, ms, sec)
	fo.Cfg.FailedUpdateTTLNs = pick(r, int64(0), -1)
	fo.BackendTTLNs = 3600 * sec
	fo.BackendJitter = -1
	fo.Followup = true

	for i := range fo.Init {
		fo.Init[i] = FOInit{Key: i, State: "stale", AgeNs: sec, FailAgeNs: -1}
	}

	build := pick(r, 2*sec, 7*sec)

	for c := range fo.Clients {
		op := FOOp{Kind: "get", Key: 0}

		if c == 0 {
			op.BuildSleepNs = build
			op.BuildFail = chance(r, 0.2)
			fo.Clients[c] = []FOOp{op}

			continue
		}

		op.BuildFail = chance(r, 0.3)
		// the builder's sleep starts a few dozen steps after the run does: arrive around its end
		fo.Clients[c] = []FOOp{{Kind: "sleep", SleepNs: build + int64(r.IntN(120)-40)*sc.TickNs}, op}
	}

	sc.NoFastPath = true
	sc.Sched = genSched(r, 160)

	if chance(r, 0.5) {
		sc.Sched = SchedSpec{Kind: "pct", Seed: r.Uint64(), Depth: 2 + r.IntN(3), Horizon: 60 + r.IntN(100)}
	}

	return sc
}

// genFOExpireAllRace: Gets on expired entries (within and beyond MaxStaleness) while another goroutine calls
// ExpireAll on the backend again and again: every entry's expiry instant moves under the Gets' feet, and
// whatever a Get decides about "servable stale value or not" it must decide consistently.
func genFOExpireAllRace(r *rand.Rand) *Scenario {
	sc := genFOBase(r, foShape{minClients: 2, maxClients: 4, maxKeys: 2, maxOps: 2, skipRead: false})
	fo := sc.FO
	fo.Faults = FOFaults{}
	fo.Cfg.MaxStalenessNs = pick(r, 10*sec, 10*sec, 500*ms, 0)
	fo.Cfg.SyncUpdate = chance(r, 0.2)
	fo.Cfg.FailHard = chance(r, 0.2)
	fo.BackendJitter = -1

	for i := range fo.Init {
		fo.Init[i].State = "stale"
		fo.Init[i].AgeNs = pick(r, 60*sec, 60*sec, 11*sec, sec, ms) // mostly beyond MaxStaleness
		fo.Init[i].FailAgeNs = -1
	}

	var side []FOOp

	for i := 1 + r.IntN(3); i > 0; i-- {
		side = append(side, FOOp{Kind: "expireAll"})

		if chance(r, 0.5) {
			side = append(side, FOOp{Kind: "sleep", SleepNs: pick(r, int64(1), 100, 1000)})
		}
	}

	fo.Clients = append(fo.Clients, side)
	sc.NoFastPath = true
	sc.Sched = genSched(r, 80)

	return sc
}

// --- helpers ------------------------------------------------------------------------------------

// successfulWrites returns the successful wrapper writes for key k with seq < before.
func (r *foRun) wroteBefore(k string, v interface{}, before uint64) bool {
	for _, c := range r.calls {
		if c.kind == "write" && c.err == nil && c.key == k && c.val == v && c.retSeq < before {
			return true
		}
	}

	return false
}

func (r *foRun) preloaded(k string) bool {
	for _, in := range r.sc.Init {
		if r.sc.Keys[in.Key] == k && in.State != "absent" {
			return true
		}
	}

	return false
}

func (r *foRun) prefailed(k string) bool {
	for _, in := range r.sc.Init {
		if r.sc.Keys[in.Key] == k && in.FailAgeNs >= 0 {
			return true
		}
	}

	return false
}

// --- C02: provenance ---------------------------------------------------------------------------

func (r *foRun) oracleC02() {
	r.commonFO()

	out := r.e.out

	for _, o := range r.ops {
		if !o.done || o.panicked {
			continue
		}

		k := o.key

		if o.err == nil {
			t, ok := o.val.(Tok)
			if !ok || t == (Tok{}) {
				out.violate("C02.R3", "fabricated "+r.pathOf(o), "%s Get(%q) returned (%#v, nil): no builder produced this value and the backend never held it", o.id(), k, o.val)

				continue
			}

			if t.K != k {
				out.violate("C02.R1", "wrong-key", "%s Get(%q) returned %v which belongs to key %q", o.id(), k, t, t.K)

				continue
			}

			okProv := false

			if t.ID == "pre" {
				okProv = r.preloaded(k)
			} else if strings.HasPrefix(t.ID, "side") {
				// stored in the backend under that key by another part of the application
				for _, w := range r.sideWrites {
					if w.key == k && w.tok == t && w.seq <= o.ret {
						okProv = true
					}
				}
			} else {
				for _, b := range r.builds {
					if b.key == k && b.exited && !b.fail && b.tok == t && b.exit <= o.ret {
						okProv = true
					}
				}

				if !okProv && r.wroteBefore(k, t, o.ret) {
					okProv = true
				}
			}

			if !okProv {
				out.violate("C02.R2", "unfinished-or-failed-build", "%s Get(%q) returned %v, but no builder invocation for the key had finished successfully with that value by seq %d and the backend had not accepted it", o.id(), k, t, o.ret)
			}

			continue
		}

		// error result
		okErr := false

		var et ErrTok
		if errors.As(o.err, &et) {
			switch {
			case et.K != k:
				out.violate("C02.R4", "foreign-error", "%s Get(%q) returned error %v which belongs to key %q", o.id(), k, o.err, et.K)

				continue
			case et.ID == "prefail":
				okErr = r.prefailed(k)
			default:
				for _, b := range r.builds {
					if b.key == k && b.exited && b.fail && b.err == et && b.exit <= o.ret {
						okErr = true
					}
				}

				for _, c := range r.calls {
					if c.injected && c.key == k && c.err == error(et) && c.retSeq <= o.ret {
						okErr = true
					}
				}
			}
		} else {
			for _, c := range r.calls {
				if c.key == k && c.err != nil && c.retSeq <= o.ret && errors.Is(o.err, c.err) {
					okErr = true
				}
			}
		}

		if !okErr {
			out.violate("C02.R4", "unknown-error", "%s Get(%q) returned error %v that neither a builder invocation for the key nor the backend produced before seq %d", o.id(), k, o.err, o.ret)
		}
	}

	r.probesC02()
}

// pathOf classifies how a Get left Failover.Get (used in signatures so that distinct defects
// have distinct signatures).
func (r *foRun) pathOf(o *opRec) string {
	if len(o.builds) > 0 {
		if o.builds[0].fail {
			return "own-build-failed"
		}

		return "own-build"
	}

	// waiter?
	for _, l := range r.logs {
		_ = l
	}

	for _, p := range r.ops {
		if p != o && p.key == o.key && overlapping(o.inv, o.ret, p.inv, p.ret) {
			return "no-build-concurrent"
		}
	}

	return "no-build"
}

func (r *foRun) probesC02() {
	out := r.e.out

	for _, c := range r.calls {
		if !c.injected {
			continue
		}
		// some other Get on the key overlapped the failing call
		for _, o := range r.ops {
			if o.key == c.key && o.inv < c.seq && o.ret > c.seq && o.task != c.task {
				if c.kind == "read" {
					out.probe("other_get_in_flight_at_unexpected_read_error")
				} else {
					out.probe("other_get_in_flight_at_write_error")
				}

				break
			}
		}
	}

	for _, b := range r.builds {
		if b.fail {
			for _, c := range r.calls {
				if c.kind == "read" && c.key == b.key && c.task == b.task && c.seq < b.enter && errors.Is(c.err, cache.ErrExpired) {
					out.probe("stale_value_and_failing_builder")

					break
				}
			}
		}
	}
}

// --- C04: completion and lock release ---------------------------------------------------------

func (r *foRun) oracleC04() {
	r.commonFO()

	out := r.e.out

	// R2: no per-key build lock remains at quiescence.
	if names := r.api.KeyLockNames(); len(names) > 0 {
		out.violate("C04.R2", "lock-leak", "%d per-key build lock(s) still held after every Get and background build finished: %q", len(names), names)
	}

	// R4: the result of every successfully completed build was stored under the key the Get was called with.
	for _, b := range r.builds {
		if !b.exited || b.fail {
			continue
		}

		stored, rejected := false, false

		for _, c := range r.calls {
			if c.kind == "write" && c.val == interface{}(b.tok) && c.seq > b.exit {
				if c.key == b.key && c.err == nil {
					stored = true
				}

				if c.injected {
					rejected = true
				}
			}
		}

		if !stored && !rejected {
			out.violate("C04.R4", "last-build-lost", "build of %s for key %q finished with %v but that value was never stored under %q", b.op.id(), b.key, b.tok, b.key)
		}
	}

	// R7: a later Get observes the result of the last completed build. The value the backend holds for a key
	// at quiescence is what such a Get is served (or refreshes from): when the last successful store under the
	// key carries the result of an older build (or the value that was there before any build) than an earlier
	// store did, a completed build was rolled back. Only values whose origin is known are judged (values stored
	// by other parts of the application are not builds).
	origin := map[interface{}]uint64{}

	for _, b := range r.builds {
		if b.exited && !b.fail {
			origin[interface{}(b.tok)] = b.exit
		}
	}

	for _, k := range r.sc.Keys {
		origin[interface{}(Tok{K: k, ID: "pre"})] = 0
	}

	lastStore := map[string]*beCall{}
	newest := map[string]*beCall{} // per key: the successful store whose value has the latest origin
	unknown := map[string]bool{}
	rollback := map[string]*beCall{} // per key: the first store that put something older over the newest result

	for _, c := range r.calls {
		if c.kind != "write" || c.err != nil {
			continue
		}

		og, ok := origin[c.val]
		if t, isTok := c.val.(Tok); !ok || (isTok && t.ID == nilID) {
			// (nil results of different builds are one and the same token: no origin)
			unknown[c.key] = true

			continue
		}

		lastStore[c.key] = c

		if n := newest[c.key]; n == nil || og > origin[n.val] {
			newest[c.key] = c
			rollback[c.key] = nil
		} else if og < origin[newest[c.key].val] && rollback[c.key] == nil {
			rollback[c.key] = c // the first store of something older over the newest result
		}
	}

	for _, sw := range r.sideWrites {
		unknown[sw.key] = true
	}

	for _, k := range r.sc.Keys {
		l, n := lastStore[k], newest[k]
		if l == nil || unknown[k] {
			continue
		}

		out.probe("last_store_judged")

		if rb := rollback[k]; origin[l.val] < origin[n.val] && rb != nil {
			// How did it come about? What counts is the store that rolled the result back (later stores may merely
			// refresh the rolled-back value again). It is classified by what its task knew: its last backend
			// read of the key, before or after the newer value was stored, and whether it stored a value that
			// already existed when it read (a refresh of what it had read) or something it built afterwards.
			var rd *beCall

			for _, c := range r.calls {
				if c.kind == "read" && c.key == k && c.task == rb.task && c.seq < rb.seq {
					rd = c
				}
			}

			by, read := "own-build", "none"

			if rd != nil {
				// (a read that was invoked before the newer store had returned may legitimately have seen the older value)
				read = "after-newer-store"
				if rd.seq < n.retSeq {
					read = "before-newer-store"
				}

				if origin[rb.val] < rd.seq {
					by = "refresh-of-value-read"
				}
			}

			// ... and by the role of the Get that made the store: one that went on to build or was turned away by a
			// cached failure owned the key lock; one that returned a value without any build of its own did not.
			role := "unknown"

			for _, o := range r.ops {
				if o.task == rb.task && o.key == k && o.inv < rb.seq && (!o.done || o.ret > rb.seq) {
					switch {
					case len(o.builds) > 0 || (o.done && o.err != nil):
						role = "owner"
					case o.done:
						role = "non-owner"
					}
				}
			}

			out.violate("C04.R7", fmt.Sprintf("completed-build-rolled-back by=%s read=%s get=%s syncRead=%v", by, read, role, r.sc.Cfg.SyncRead),
				"key %q: %v (build finished at seq %d) was stored at seq %d, afterwards, at seq %d, %v (origin seq %d: an older build, or the value cached before any build) was stored over it by task %s; everything has finished and a later Get observes %v, not the result of the last completed build",
				k, n.val, origin[n.val], n.seq, rb.seq, rb.val, origin[rb.val], rb.task, l.val)
		}
	}

	for _, o := range r.ops {
		if o.op.MutateKey != "" {
			for _, b := range o.builds {
				if b.background && (!b.exited || b.exit > o.ret) {
					out.probe("key_overwritten_while_background_build_pending")
				}
			}
		}

		if o.op.Cancel == "after" || o.op.Cancel == "deadline" {
			for _, b := range o.builds {
				if b.background {
					out.probe("ctx_cancelled_with_background_build")
				}
			}
		}
	}

	// R5: a rejected backend call is not a builder failure: its error may reach the Gets that were
	// in flight when it happened, but a Get invoked afterwards (with no build in flight for the key)
	// must be able to build again and cannot be answered with that old error.
	for _, o := range r.ops {
		var et ErrTok
		if !o.done || o.err == nil || !errors.As(o.err, &et) || !strings.HasPrefix(et.ID, "be-") {
			continue
		}

		for _, c := range r.calls {
			if !c.injected || c.err != error(et) {
				continue
			}

			quiet := c.retSeq < o.inv && !containsStr(o.locksAtInvoke, o.key)

			for _, p := range r.ops {
				if p != o && p.key == o.key && p.inv < o.inv && (!p.done || p.ret > o.inv) {
					quiet = false // another Get for the key was still in flight: o may have waited for it
				}
			}

			if quiet {
				out.violate("C04.R5", "old-backend-error-served", "%s Get(%q) returned %v, the error of a backend %s that was rejected before this Get was invoked (no Get or build for the key was in flight then): a backend rejection must not keep the key from being rebuilt", o.id(), o.key, o.err, c.kind)
			}

			out.probe("backend_error_reached_a_get")
		}
	}

	// R6 (bounded liveness in simulated time). When a Get logs "waiting for cache value" it is bound to the key
	// lock it has found: the lock of a Get that was invoked before that moment (or of its background build). It
	// depends on nothing that is invoked later. A runnable task is always scheduled before the clock jumps, so
	// once everything it can depend on has returned the waiter is at most a few thousand ticks (far below half a
	// simulated second) from returning; if it came back only after a build of a Get invoked later that slept for
	// a second or more, it waited for that build. (Needs a logger with the debug level.)
	for _, o := range r.ops {
		if !o.done || len(o.builds) > 0 {
			continue
		}

		var sw uint64

		for _, l := range r.logs {
			// the last time: a Get may legitimately start over (a SkipRead Get whose owner did not build) and
			// wait again, for a later owner
			if l.msg == "waiting for cache value" && l.task == o.task && l.seq > o.inv && l.seq < o.ret {
				sw = l.seq
			}
		}

		if sw == 0 {
			continue
		}

		dep, open := o.invNs, false

		for _, p := range r.ops {
			if p == o || p.key != o.key || p.inv > sw {
				continue
			}

			if !p.done {
				open = true
			} else if p.ret > sw && p.retNs > dep {
				dep = p.retNs
			}

			for _, b := range p.builds {
				if !b.exited {
					open = true
				} else if b.exit > sw && b.exitNs > dep {
					dep = b.exitNs
				}
			}
		}

		if open {
			continue
		}

		out.probe("waiter_liveness_checked")

		for _, b := range r.builds {
			if b.key == o.key && b.exited && b.op.inv > sw && b.exitNs-b.enterNs >= int64(time.Second) &&
				o.retNs >= b.exitNs && o.retNs-dep > int64(500*time.Millisecond) {
				out.violate("C04.R6", "waited-for-unrelated-later-build", "%s Get(%q) started waiting at seq %d; every Get and build of the key it could depend on (invoked before that) had returned by t=%v, yet it returned at t=%v, only after the build of %s (invoked at seq %d, built t=%v..%v), which it does not depend on",
					o.id(), o.key, sw, dur(dep-r.t0()), dur(o.retNs-r.t0()), b.op.id(), b.op.inv, dur(b.enterNs-r.t0()), dur(b.exitNs-r.t0()))

				break
			}
		}
	}

	if !r.sc.Followup || len(out.Violations) > 0 {
		return
	}

	r.followup()
}

// t0 is the bubble clock's epoch (simulated instants are printed relative to it).
func (r *foRun) t0() int64 {
	if len(r.ops) > 0 {
		return r.ops[0].invNs
	}

	return 0
}

// followup is C04.R3: after forcing everything to expire, one fault-free Get per key from a
// fresh immutable key must invoke its builder and return the new value.
func (r *foRun) followup() {
	e := r.e
	out := e.out

	r.noFaults = true // no faults from here on
	r.be.expAl(context.Background())

	far := time.Second + r.updateTTL + r.failedTTL*11/10 + dur(r.sc.Cfg.MaxStalenessNs)
	if v := e.s.Advance(far); v != zs.Quiescent {
		out.Internal = "followup advance: " + v.String()

		return
	}

	base := len(r.ops)
	ops := make([]FOOp, len(r.sc.Keys))

	e.s.Spawn("follow", func() {
		for i := range r.sc.Keys {
			ops[i] = FOOp{Kind: "get", Key: i}

			zs.Yield("op")
			r.doGet(99, i, &ops[i], nil)
		}
	})

	if !e.runAll("C04.R1") {
		return
	}

	e.checkPanics()

	for _, o := range r.ops[base:] {
		want := Tok{K: o.key, ID: "b" + o.id()[1:]}

		switch {
		case len(o.builds) == 0:
			out.violate("C04.R3", "cannot-rebuild", "after everything expired, Get(%q) returned (%v, %v) without invoking its builder: the key can no longer be rebuilt", o.key, o.val, o.err)
		case o.builds[0].background:
			// an acceptable stale value was served while the rebuild ran in background
			if !r.wroteBefore(o.key, want, ^uint64(0)) {
				out.violate("C04.R3", "background-rebuild-not-stored", "after everything expired, Get(%q) rebuilt %v in background but the value was never stored", o.key, want)
			}
		case o.err != nil || o.val != interface{}(want):
			out.violate("C04.R3", "rebuild-result-not-returned", "after everything expired, Get(%q) invoked its builder (-> %v) but returned (%v, %v)", o.key, want, o.val, o.err)
		}
	}

	if names := r.api.KeyLockNames(); len(names) > 0 {
		out.violate("C04.R2", "lock-leak", "%d per-key build lock(s) still held after the follow-up Gets: %q", len(names), names)
	}
}

// --- C09 (b): key-buffer reuse through Failover -----------------------------------------------------

func (r *foRun) oracleC09() {
	r.commonFO()
	r.collisionProvenance()

	out := r.e.out

	for _, b := range r.builds {
		if !b.exited {
			continue
		}

		for _, c := range r.calls {
			if c.kind == "write" && c.task == b.task && c.seq > b.exit && c.val == interface{}(b.tok) && c.key != b.key {
				out.violate("C09.R4", "build-wrote-to-rewritten-key", "build of %s was started for key %q, but after the caller rewrote its key buffer the result %v was written under %q", b.op.id(), b.key, b.tok, c.key)
			}
		}
	}

	if names := r.api.KeyLockNames(); len(names) > 0 {
		out.violate("C09.R4", "lock-not-released-under-original-key", "per-key build lock(s) still held at quiescence after a caller rewrote its key buffer: %q", names)
	}

	for _, o := range r.ops {
		if o.op.MutateKey != "" {
			for _, b := range o.builds {
				if b.background && (!b.exited || b.exit > o.ret) {
					out.probe("key_overwritten_while_background_build_pending")

					out.NonTrivial = true
				}
			}
		}
	}
}

// --- C05: build economy -------------------------------------------------------------------------------

// genC05DefaultBackend: the Failover builds its own backend and failure cache from BackendConfig
// (with eviction settings, as an application would configure them); several keys fail, the
// clock passes a janitor tick of the failure cache, and the keys are asked for again inside
// FailedUpdateTTL.
func genC05DefaultBackend(r *rand.Rand) *Scenario {
	sc := genFOBase(r, foShape{minClients: 1, maxClients: 2, maxKeys: 1, maxOps: 1})
	fo := sc.FO
	fo.DefaultBackend = true
	fo.Faults = FOFaults{}
	fo.Cfg.FailedUpdateTTLNs = pick(r, 600*sec, 180*sec, 3600*sec)
	fo.Cfg.MaxStalenessNs = 0
	fo.BackendCfg = BEConfig{CountSoftLimit: uint64(1 + r.IntN(3)), EvictFraction: pick(r, 0.3, 0.5, 1), Strategy: r.IntN(3)}
	fo.Keys, fo.Init = nil, nil

	nk := 3 + r.IntN(5)
	for i := 0; i < nk; i++ {
		fo.Keys = append(fo.Keys, fmt.Sprintf("k%d", i))
		fo.Init = append(fo.Init, FOInit{Key: i, State: "absent", FailAgeNs: -1})
	}

	var ops []FOOp

	for i := 0; i < nk; i++ {
		ops = append(ops, FOOp{Kind: "get", Key: i, BuildFail: true})
	}

	ops = append(ops, FOOp{Kind: "sleep", SleepNs: pick(r, 61*sec, 75*sec, 125*sec)})

	for i := 0; i < nk; i++ {
		ops = append(ops, FOOp{Kind: "get", Key: i, BuildFail: chance(r, 0.5)})
	}

	fo.Clients = [][]FOOp{ops}
	sc.Sched = genSched(r, 200)

	return sc
}

func genC05(r *rand.Rand, run int, _ string) *Scenario {
	if run%10 == 9 {
		return genC05DefaultBackend(r)
	}

	if run%2 == 0 {
		// Run A: SyncRead burst on one key.
		sc := genFOBase(r, foShape{minClients: 2, maxClients: 8, maxKeys: 1, maxOps: 1})
		fo := sc.FO
		fo.Cfg.SyncRead = true
		fo.Cfg.UpdateTTLNs = pick(r, int64(0), 20*sec)
		fo.BackendTTLNs = pick(r, int64(0), 3600*sec)
		fo.Init[0].FailAgeNs = -1

		if fo.Init[0].State == "fresh" {
			fo.Init[0].State = "absent"
		}

		for c := range fo.Clients {
			fo.Clients[c] = []FOOp{{Kind: "get", Key: 0, BuildSleepNs: pick(r, int64(0), ms, 2*sec)}}
		}

		if chance(r, 0.5) {
			// each client issues two Gets
			for c := range fo.Clients {
				fo.Clients[c] = append(fo.Clients[c], FOOp{Kind: "get", Key: 0, BuildSleepNs: pick(r, int64(0), ms)})
			}
		}

		return sc
	}

	// Run B: failure suppression in sequences with clock jumps.
	sc := genFOBase(r, foShape{minClients: 1, maxClients: 3, maxKeys: 2, maxOps: 6, sleeps: true, skipRead: true})
	fo := sc.FO
	fo.Cfg.FailedUpdateTTLNs = pick(r, int64(0), 0, -1, 5*sec, 2*sec)

	for i := range fo.Init {
		fo.Init[i].FailAgeNs = -1
	}

	for c := range fo.Clients {
		for i := range fo.Clients[c] {
			op := &fo.Clients[c][i]
			if op.Kind == "sleep" {
				op.SleepNs = pick(r, ms, sec, 4*sec, 5*sec, 18*sec, 19*sec+900*ms, 21*sec+100*ms, 25*sec)
			} else {
				op.BuildFail = chance(r, 0.5)
				op.BuildSleepNs = pick(r, int64(0), 0, ms, sec)

				// the caller's context may carry a TTL for the value: it says nothing about how long a failure
				// is remembered (that is FailedUpdateTTL)
				if chance(r, 0.3) {
					op.HasCtxTTL, op.CtxTTLNs = true, pick(r, ms, 100*ms, 3600*sec, 24*3600*sec)
				}
			}
		}
	}

	return sc
}

func (r *foRun) oracleC05() {
	r.commonFO()

	out := r.e.out
	cfg := r.sc.Cfg

	if cfg.SyncRead {
		// R1: once a build for a key has succeeded, no further builder invocation for that key
		// happens while its result stays fresh (SyncRead reads inside the critical section).
		ttl := dur(r.sc.BackendTTLNs)
		if ttl == 0 {
			ttl = 5 * time.Minute
		}

		j := r.sc.BackendJitter
		if j == 0 {
			j = 0.1
		}

		if j < 0 {
			j = 0
		}

		minTTL := time.Duration(float64(ttl) * (1 - j/2))

		for _, b := range r.builds {
			if b.op.op.SkipRead || b.op.op.HasCtxTTL {
				continue
			}

			// latest successful write for the key before the builder was entered
			var last *beCall

			for _, c := range r.calls {
				if c.kind == "write" && c.key == b.key && c.err == nil && c.retSeq < b.enter {
					last = c
				}
			}

			if last == nil || last.hasTTL {
				continue
			}

			built := false

			for _, pb := range r.builds {
				if pb != b && !pb.fail && pb.exited && last.val == interface{}(pb.tok) && !pb.op.op.HasCtxTTL {
					built = true
				}
			}

			if built && b.enterNs < last.ns+int64(minTTL)-int64(time.Millisecond) {
				out.violate("C05.R1", "redundant-build", "SyncRead is on and the value built for key %q was stored at t=%v with TTL >= %v, yet %s invoked the builder again at t=%v while that result was still fresh", b.key, dur(last.ns), minTTL, b.op.id(), dur(b.enterNs))
			}
		}

		if len(r.ops) >= 2 && len(r.builds) == 1 {
			out.probe("syncread_burst_single_build")
		}
	}

	// R3: failure suppression.
	f := r.failedTTL
	if cfg.FailedUpdateTTLNs != -1 {
		for _, fb := range r.builds {
			if !fb.fail || !fb.exited {
				continue
			}

			lo, hi := fb.exitNs, fb.exitNs+int64(float64(f)*0.95)-1000

			for _, b := range r.builds {
				if b.key == fb.key && b != fb && b.enterNs > lo && b.enterNs < hi && !b.op.op.SkipRead {
					out.violate("C05.R3", "rebuild-inside-failure-window", "builder for key %q failed at t=%v, yet %s invoked the builder again at t=%v, before FailedUpdateTTL=%v (minus jitter) elapsed", fb.key, dur(fb.exitNs), b.op.id(), dur(b.enterNs), f)
				}
			}

			for _, o := range r.ops {
				if o.key == fb.key && o.done && o.invNs > lo && o.retNs < hi && !o.op.SkipRead && len(o.builds) == 0 {
					out.probe("get_inside_failure_window")

					if o.err == nil {
						continue // served a fresh / refreshed value
					}

					if !errors.Is(o.err, error(fb.err)) {
						// a later failure of the same key may have replaced the cached error
						later := false

						for _, b2 := range r.builds {
							if b2.key == fb.key && b2.fail && errors.Is(o.err, error(b2.err)) {
								later = true
							}
						}

						if !later {
							out.violate("C05.R3", "wrong-cached-error", "Get(%q) inside the failure window returned %v instead of the cached builder error %v", o.key, o.err, fb.err)
						}
					}
				}
			}
		}
	}

	// R3 (upper side): once FailedUpdateTTL (plus jitter) has elapsed since the last failure of a key, the failure is
	// forgotten: a Get that finds no fresh value builds again, it is not answered with the old error.
	if cfg.FailedUpdateTTLNs != -1 {
		for _, o := range r.ops {
			if !o.done || o.err == nil || len(o.builds) > 0 || o.op.SkipRead || containsStr(o.locksAtInvoke, o.key) {
				continue
			}

			var et ErrTok
			if !errors.As(o.err, &et) || et.K != o.key || strings.HasPrefix(et.ID, "be-") || et.ID == "prefail" {
				continue
			}

			var last *buildRec

			for _, b := range r.builds {
				if b.key == o.key && b.fail && b.exited && b.exit < o.inv && (last == nil || b.exit > last.exit) {
					last = b
				}
			}

			overlap := false

			for _, p := range r.ops {
				if p != o && p.key == o.key && p.inv < o.ret && (!p.done || p.ret > o.inv) {
					overlap = true
				}
			}

			if last == nil || overlap {
				continue
			}

			if o.invNs-last.exitNs > int64(float64(f)*1.06)+1000 {
				out.violate("C05.R3", "failure-outlived-failed-update-ttl", "%s Get(%q) was answered with the cached error %v although the last failed build of the key ended %v earlier and FailedUpdateTTL is %v", o.id(), o.key, o.err, dur(o.invNs-last.exitNs), f)
			}
		}
	}

	// R4: FailedUpdateTTL=-1 -> failures are not cached (single-client sequences only).
	if cfg.FailedUpdateTTLNs == -1 && len(r.sc.Clients) == 1 && !r.sc.DefaultBackend {
		for i, o := range r.ops {
			if i == 0 || !o.done {
				continue
			}

			prev := r.ops[i-1]
			if prev.key != o.key || len(prev.builds) == 0 || !prev.builds[0].fail {
				continue
			}

			if !prev.done || prev.ret > o.inv {
				continue // not a sequence: a Get issued by a builder overlaps the Get it was issued from
			}

			if containsStr(o.locksAtInvoke, o.key) {
				continue // the previous owner was still in flight: this Get may wait for it
			}

			// did this Get find a fresh value?
			fresh := false

			for _, c := range r.calls {
				if c.kind == "read" && c.key == o.key && c.seq > o.inv && c.seq < o.ret && c.err == nil {
					fresh = true
				}
			}

			out.probe("get_after_uncached_failure")

			if !fresh && len(o.builds) == 0 {
				out.violate("C05.R4", "failure-cached-although-disabled", "FailedUpdateTTL=-1, previous build for %q failed, yet the next Get that found no fresh value did not invoke its builder (returned %v, %v)", o.key, o.val, o.err)
			}
		}
	}
}

// --- C06: TTL and context propagation ------------------------------------------------------------------

// genC06Shared: several goroutines issue Gets under ONE request context carrying a TTL cell; nobody
// asks for another TTL, so every built value must be stored with exactly that TTL and the cell must
// still hold it afterwards - whatever temporary re-stores of stale values happen meanwhile.
func genC06Shared(r *rand.Rand) *Scenario {
	sc := genFOBase(r, foShape{minClients: 2, maxClients: 4, maxKeys: 3, maxOps: 3, sleeps: false, skipRead: true})
	fo := sc.FO
	fo.BackendJitter = -1
	fo.Faults = FOFaults{}
	fo.SharedCtxTTLNs = pick(r, 3600*sec, 7*sec, 24*3600*sec)

	for i := range fo.Init {
		fo.Init[i].FailAgeNs = -1

		if chance(r, 0.6) {
			fo.Init[i].State, fo.Init[i].AgeNs = "stale", ms
		}
	}

	for c := range fo.Clients {
		for i := range fo.Clients[c] {
			op := &fo.Clients[c][i]
			if op.Kind != "get" {
				continue
			}

			op.UseShared, op.HasCtxTTL, op.CtxTTLNs = true, true, fo.SharedCtxTTLNs
			op.BuildTTLs, op.Cancel, op.BuildFail = nil, "", false
			op.BuildSleepNs = pick(r, int64(0), 0, ms)
		}
	}

	sc.NoFastPath = chance(r, 0.3)

	return sc
}

// genC06Equal: the source has not changed, every rebuild returns a value equal to the stale one
// (with and without ObserveMutability); the final store and its TTL are due all the same.
func genC06Equal(r *rand.Rand) *Scenario {
	sc := genFOBase(r, foShape{minClients: 1, maxClients: 3, maxKeys: 2, maxOps: 3, sleeps: true, skipRead: true, ctxTTL: true})
	fo := sc.FO
	fo.BackendJitter = -1
	fo.Faults = FOFaults{}
	fo.Cfg.Stats = true
	fo.Cfg.ObserveMutability = chance(r, 0.7)

	for i := range fo.Init {
		fo.Init[i].FailAgeNs = -1

		if chance(r, 0.8) {
			fo.Init[i].State, fo.Init[i].AgeNs = "stale", pick(r, ms, sec)
		}
	}

	for c := range fo.Clients {
		for i := range fo.Clients[c] {
			op := &fo.Clients[c][i]
			if op.Kind != "get" {
				continue
			}

			op.BuildEqual, op.BuildFail, op.Cancel = true, false, ""

			if chance(r, 0.6) {
				op.HasCtxTTL, op.CtxTTLNs = true, pick(r, sec, 30*sec, 3600*sec, 24*3600*sec)
			}
		}
	}

	return sc
}

func genC06(r *rand.Rand, run int, _ string) *Scenario {
	if run%6 == 5 {
		return genC06Shared(r)
	}

	if run%6 == 4 {
		return genC06Equal(r)
	}

	sc := genFOBase(r, foShape{minClients: 1, maxClients: 3, maxKeys: 2, maxOps: 3, sleeps: true, skipRead: true, ctxTTL: true, callerTricks: false})
	fo := sc.FO
	fo.BackendJitter = -1

	ttls := []int64{0, 1, ms, sec, 30 * sec, 3600 * sec, 24 * 3600 * sec, -1, -sec}

	for c := range fo.Clients {
		for i := range fo.Clients[c] {
			op := &fo.Clients[c][i]
			if op.Kind != "get" {
				continue
			}

			if chance(r, 0.6) {
				op.HasCtxTTL = true
				op.CtxTTLNs = pick(r, ttls...)
			}

			n := r.IntN(4)
			for j := 0; j < n; j++ {
				op.BuildTTLs = append(op.BuildTTLs, TTLCall{Ns: pick(r, ttls...), Update: chance(r, 0.75)})
			}

			op.BuildFail = chance(r, 0.15)

			if chance(r, 0.35) {
				op.Cancel = pick(r, "after", "deadline", "before")
			}
		}
	}

	// avoid context TTLs equal to UpdateTTL so that refresh writes are recognisable
	return sc
}

// refFold is the documented TTL fold: the smallest non-zero value among the caller's and the
// builder's updateExisting=true values when the caller context carries a TTL cell.
func refFold(op *FOOp) int64 {
	if !op.HasCtxTTL {
		return 0
	}

	cur := op.CtxTTLNs

	for _, tc := range op.BuildTTLs {
		if !tc.Update {
			// WithTTL(ctx, x, false) gives the builder a child context with its own cell:
			// later updates no longer reach the caller's cell.
			break
		}

		if tc.Ns == 0 {
			continue
		}

		if cur == 0 || tc.Ns < cur {
			cur = tc.Ns
		}
	}

	return cur
}

func (r *foRun) oracleC06() {
	r.commonFO()

	out := r.e.out
	out.NonTrivial = len(r.builds) > 0

	for _, b := range r.builds {
		if !b.exited {
			continue
		}

		op := b.op.op
		want := refFold(op)

		if op.HasCtxTTL && len(op.BuildTTLs) > 0 {
			out.probe("builder_communicated_ttl")
		}

		if !b.fail {
			// R1: final store TTL.
			stored := r.sc.DefaultBackend

			for _, c := range r.calls {
				if c.kind == "write" && c.task == b.task && c.seq > b.exit && c.val == interface{}(b.tok) {
					stored = true

					if c.ttlNs != want {
						out.violate("C06.R1", fmt.Sprintf("final-store-ttl ctx=%v builder=%v", ttlClass(op), buildTTLClass(op)), "%s: built value stored with TTL %v, expected %v (caller ctx TTL %s, builder WithTTL calls %v)", b.op.id(), dur(c.ttlNs), dur(want), ttlClass(op), op.BuildTTLs)
					}

					break
				}
			}

			if !stored {
				out.violate("C06.R1", "final-store-missing", "%s: the builder returned %v but the value was not stored afterwards: the entry keeps whatever TTL it had (equal to the stale value: %v)", b.op.id(), b.tok, op.BuildEqual)
			}

			if op.BuildEqual {
				out.probe("rebuilt_value_equal_to_stale_one")
			}
		}

		// R3: caller's context after a synchronous build.
		if !b.background && b.op.done && len(b.op.builds) == 1 {
			if b.op.callerTTL != want {
				out.violate("C06.R3", fmt.Sprintf("caller-ttl ctx=%v builder=%v", ttlClass(op), buildTTLClass(op)), "%s: after Get the caller's context carries TTL %v, expected %v", b.op.id(), dur(b.op.callerTTL), dur(want))
			}
		}

		// R4: background build context.
		if b.background {
			out.probe("background_build_ctx_observed")

			if op.Cancel != "" {
				out.probe("background_build_with_cancelled_caller_ctx")
			}

			switch {
			case b.ctxErrEnter != nil || b.ctxErrExit != nil:
				out.violate("C06.R4", "bg-ctx-cancelled", "%s: background build context reports Err()=%v/%v (caller cancel mode %q)", b.op.id(), b.ctxErrEnter, b.ctxErrExit, op.Cancel)
			case b.hasDeadline:
				out.violate("C06.R4", "bg-ctx-deadline", "%s: background build context carries the caller's deadline", b.op.id())
			case b.doneFired:
				out.violate("C06.R4", "bg-ctx-done", "%s: background build context's Done() fired", b.op.id())
			case b.causeExit != nil:
				out.violate("C06.R4", "bg-ctx-cause", "%s: context.Cause of the background build context is %v (caller cancel mode %q): the caller's cancellation shows through although Err() is nil", b.op.id(), b.causeExit, op.Cancel)
			case !b.markerVisible:
				out.violate("C06.R4", "bg-ctx-values-lost", "%s: background build context does not expose the caller's context values", b.op.id())
			}
		}
	}

	// shared request context: the cell must still hold the TTL the application put there
	if r.sharedCtx != nil {
		out.probe("shared_request_context")

		if got := int64(cache.TTL(r.sharedCtx)); got != r.sc.SharedCtxTTLNs {
			out.violate("C06.R3", "shared-ctx-ttl-changed", "several Gets shared one request context with TTL %v; afterwards the context carries TTL %v", dur(r.sc.SharedCtxTTLNs), dur(got))
		}
	}

	// R2: the temporary re-store of a stale value uses UpdateTTL.
	for _, c := range r.calls {
		if c.kind != "write" {
			continue
		}

		t, ok := c.val.(Tok)
		if !ok {
			continue
		}

		isRefresh := false

		for _, b := range r.builds {
			if b.tok == t && b.task == c.task && c.seq > b.exit {
				isRefresh = false

				goto next
			}
		}

		isRefresh = r.isOldTokenBefore(t, c)
	next:
		if isRefresh {
			out.probe("stale_refresh_write")

			if dur(c.ttlNs) != r.updateTTL {
				out.violate("C06.R2", "refresh-ttl", "stale value %v re-stored with TTL %v instead of UpdateTTL %v", t, dur(c.ttlNs), r.updateTTL)
			}
		}
	}

	// R5b: whatever else is going on, a SkipRead Get is never answered from the cache: the value it returns
	// was built by an invocation that was still running, or started, after the Get was invoked - unless a build
	// of the key failed during the Get (then the stale fallback is the documented answer).
	for _, o := range r.ops {
		if !o.op.SkipRead || !o.done || o.err != nil {
			continue
		}

		t, ok := o.val.(Tok)
		if !ok {
			continue
		}

		failedMeanwhile, builtMeanwhile := false, false

		for _, b := range r.builds {
			if b.key != o.key {
				continue
			}

			if b.fail && (!b.exited || b.exit > o.inv) && b.enter < o.ret {
				failedMeanwhile = true
			}

			// still running, or its owner had not yet left Get (a synchronous owner holds the key lock until it
			// returns: a Get arriving before that is its waiter)
			if !b.fail && b.tok == t && (!b.exited || b.exit > o.inv || !b.op.done || b.op.ret > o.inv) {
				builtMeanwhile = true
			}
		}

		// a build whose result was stored only after the Get was invoked was still in progress then (its owner
		// held the key lock until the store)
		for _, c := range r.calls {
			if c.kind == "write" && c.key == o.key && c.val == interface{}(t) && c.retSeq > o.inv && dur(c.ttlNs) != r.updateTTL {
				builtMeanwhile = true
			}
		}

		out.probe("skipread_result_provenance_checked")

		if r.sc.DefaultBackend {
			continue // no view on the stores
		}

		lockHeld := containsStr(o.locksAtInvoke, o.key)

		// known finding: with SyncRead every Get takes the key lock, and a SkipRead Get that finds it held by a
		// Get that is only doing its in-lock read is handed that Get's cache hit; nothing is rebuilt
		syncReadHit := false

		if r.sc.Cfg.SyncRead && !builtMeanwhile && !failedMeanwhile {
			keyBuilt := false

			// only when no build of the key has ever started: then no build owner (synchronous or background) can
			// be holding the key lock, and the only holders are Gets doing their in-lock read
			for _, b := range r.builds {
				if b.key == o.key && b.enter < o.ret {
					keyBuilt = true
				}
			}

			for _, p := range r.ops {
				if !keyBuilt && p != o && p.key == o.key && p.done && p.err == nil && len(p.builds) == 0 && !p.op.SkipRead &&
					p.val == o.val && p.inv < o.ret && p.ret > o.inv {
					syncReadHit = true

					out.violate("C06.R5", "skipread-waiter-served-syncread-owners-cache-hit", "SyncRead: %s Get(%q) with SkipRead overlapped %s, which held the key lock for its in-lock read; it returned that Get's cache hit %v and nothing was rebuilt", o.id(), o.key, p.id(), t)

					break
				}
			}
		}

		switch {
		case builtMeanwhile || failedMeanwhile || syncReadHit:
		case !lockHeld:
			out.violate("C06.R5", "skipread-served-from-cache", "%s Get(%q) with SkipRead returned %v, a value that was built and stored before the Get was invoked (no build of the key failed meanwhile, no key lock was held): it was answered from the cache", o.id(), o.key, t)
		default:
			// The key lock was held when the Get was invoked: it is a waiter. Whom it waited for cannot be observed
			// directly, but one case is unambiguous: a build of the key was running from before the invocation
			// until after the return. The Get cannot see the cache (SkipRead), so it had to wait for that build.
			for _, b := range r.builds {
				if b.key == o.key && b.enter < o.inv && (!b.exited || b.exit > o.ret) && len(o.builds) == 0 {
					out.violate("C06.R5", "skipread-did-not-wait-for-build-in-flight", "%s Get(%q) with SkipRead returned %v at seq %d while the build of %s (entered at seq %d before the Get was invoked) was still running: it was answered from the cache instead of waiting for the rebuilt value", o.id(), o.key, t, o.ret, b.op.id(), b.enter)

					break
				}
			}
		}
	}

	// R5: SkipRead forces a rebuild whose result is stored.
	for _, o := range r.ops {
		if !o.op.SkipRead || !o.done {
			continue
		}

		lonely := true

		for _, p := range r.ops {
			if p != o && p.key == o.key && overlapping(o.inv, o.ret+1, p.inv, p.ret+1) {
				lonely = false
			}
		}

		for _, b := range r.builds {
			if b.op != o && b.key == o.key && overlapping(o.inv, o.ret+1, b.enter, b.exit+1) {
				lonely = false
			}
		}

		if !lonely || containsStr(o.locksAtInvoke, o.key) {
			continue
		}

		out.probe("lone_skipread_get")

		// a cached failure does not hold SkipRead back either: every cache.Reader answers ErrNotFound
		// under SkipRead (README: "SkipRead can be used to force cache refresh"), the failure cache included
		if r.recentFailureAt(o) {
			out.probe("skipread_get_with_cached_failure")
		}

		if len(o.builds) != 1 {
			out.violate("C06.R5", "skipread-did-not-rebuild", "%s Get(%q) with SkipRead invoked its builder %d times and returned (%v, %v)", o.id(), o.key, len(o.builds), o.val, o.err)

			continue
		}

		b := o.builds[0]
		if !b.fail && !r.wroteBefore(o.key, b.tok, ^uint64(0)) && !r.injectedWriteFor(b) {
			out.violate("C06.R5", "skipread-result-not-stored", "%s Get(%q) with SkipRead rebuilt %v but the value was not stored", o.id(), o.key, b.tok)
		}
	}
}

func containsStr(xs []string, v string) bool {
	for _, x := range xs {
		// "#...": a key-lock table that is not keyed by the key string (see the hook): any key may be locked
		if x == v || strings.HasPrefix(x, "#") {
			return true
		}
	}

	return false
}

func (r *foRun) injectedWriteFor(b *buildRec) bool {
	for _, c := range r.calls {
		if c.kind == "write" && c.injected && c.val == interface{}(b.tok) {
			return true
		}
	}

	return false
}

// recentFailureAt reports whether the failure cache may hold an error for the op's key.
func (r *foRun) recentFailureAt(o *opRec) bool {
	if r.sc.Cfg.FailedUpdateTTLNs == -1 {
		return false
	}

	if r.prefailed(o.key) {
		return true
	}

	for _, b := range r.builds {
		if b.key == o.key && b.fail && b.exit < o.inv {
			return true
		}
	}

	return false
}

func (r *foRun) isOldTokenBefore(t Tok, c *beCall) bool {
	if t.ID == "pre" {
		return true
	}

	for _, p := range r.calls {
		if p == c {
			break
		}

		if p.kind == "write" && p.err == nil && p.val == interface{}(t) {
			return true
		}
	}

	return false
}

func ttlClass(op *FOOp) string {
	if !op.HasCtxTTL {
		return "none"
	}

	switch {
	case op.CtxTTLNs == 0:
		return "zero"
	case op.CtxTTLNs < 0:
		return "negative"
	default:
		return "positive"
	}
}

func buildTTLClass(op *FOOp) string {
	s := ""

	for _, tc := range op.BuildTTLs {
		c := "+"
		if tc.Ns == 0 {
			c = "0"
		} else if tc.Ns < 0 {
			c = "-"
		}

		if !tc.Update {
			c += "n"
		}

		s += c
	}

	return s
}

// --- C18 (frontend part): metrics ---------------------------------------------------------------------

func genC18(r *rand.Rand, run int, tier string) *Scenario {
	if run%2 == 1 {
		return genC18BE(r, run, tier)
	}

	sc := genFOBase(r, foShape{minClients: 1, maxClients: 4, maxKeys: 3, maxOps: 4, sleeps: true, skipRead: true, faults: run%4 == 2})
	sc.FO.Cfg.Stats = true
	sc.FO.Cfg.ObserveMutability = false

	return sc
}

func (r *foRun) oracleC18() {
	r.commonFO()

	out := r.e.out
	out.NonTrivial = len(r.ops) > 0

	if !r.sc.Cfg.Stats {
		return // the shrinker may have switched the tracker off
	}

	got := map[string]float64{}

	for _, s := range r.stats {
		if !s.set {
			got[s.label+"/"+s.name] += s.val
		}
	}

	nBuilds, nFailed, nRefresh := 0, 0, 0

	for _, b := range r.builds {
		if b.exited {
			nBuilds++

			if b.fail {
				nFailed++
			}
		}
	}

	realReads, realWrites := 0, 0

	for _, c := range r.calls {
		switch c.kind {
		case "read":
			if !c.injected && !c.skipRead {
				realReads++
			}
		case "write":
			if !c.injected && c.err == nil {
				realWrites++
			}

			if t, ok := c.val.(Tok); ok && dur(c.ttlNs) == r.updateTTL && r.isOldTokenBefore(t, c) {
				nRefresh++
			}
		}
	}

	// pre-loaded entries were written in root context through the real backend
	for _, in := range r.sc.Init {
		if in.State != "absent" {
			realWrites++
		}
	}

	check := func(rule, series string, want int) {
		if int(got[series]) != want {
			out.violate("C18."+rule, series, "metric %s = %v, but the workload had %d such events", series, got[series], want)
		}
	}

	check("build", "fo/"+cache.MetricBuild, nBuilds)
	check("failed", "fo/"+cache.MetricFailed, nFailed)
	check("refreshed", "fo/"+cache.MetricRefreshed, nRefresh)
	check("write", "be/"+cache.MetricWrite, realWrites)

	reads := int(got["be/"+cache.MetricHit] + got["be/"+cache.MetricMiss] + got["be/"+cache.MetricExpired])
	if reads != realReads {
		out.violate("C18.reads", "be/hit+miss+expired", "cache_hit+cache_miss+cache_expired = %d, but %d non-skipped backend reads happened", reads, realReads)
	}

	if nRefresh > 0 {
		out.probe("refresh_counted")
	}

	if nFailed > 0 {
		out.probe("failed_build_counted")
	}
}
