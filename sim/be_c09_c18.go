package sim

import (
	"bytes"
	"fmt"
	"math"
	"math/rand/v2"
	"sort"
	"strings"
	"time"

	"github.com/bool64/cache"
	zs "github.com/bool64/cache/zzverifsim"
)

func init() {
	gens["C09"] = genC09
	beOracles["C09"] = func(r *beRun) {
		if r.sc.Mode == "conc" {
			// concurrent operations over colliding keys: the linearizability oracle, reported under C09
			save := r.e.out.Violations
			r.e.out.Violations = nil
			r.oracleC08()
			post := r.e.out.post
			r.e.out.post = nil
			r.e.out.post = append(r.e.out.post, func() {
				for _, f := range post {
					f()
				}

				for i := range r.e.out.Violations {
					r.e.out.Violations[i].Rule = strings.Replace(r.e.out.Violations[i].Rule, "C08.", "C09.R2-conc-", 1)
				}

				r.e.out.Violations = append(save, r.e.out.Violations...)
			})
			r.e.out.probe("concurrent_operations_over_colliding_keys")

			return
		}

		m := newRefModel(r)
		m.checkSeq("C09", r.recs)
		r.seqReach()

		coll, mut := false, false

		for _, rec := range r.recs {
			if rec.op.Mutate {
				mut = true
			}

			if (rec.kind == "write" || rec.kind == "store") && m.group(rec.key) >= 0 {
				coll = true
			}
		}

		if coll {
			r.e.out.probe("write_to_colliding_key")
		}

		if mut {
			r.e.out.probe("key_buffer_rewritten_after_backend_call")
		}
	}
	beOracles["C18"] = (*beRun).oracleC18BE
	beOracles["C13"] = (*beRun).oracleC13Conc
	beModes["evictconc"] = (*beRun).modeEvictConc
}

// genC13Conc: a Dump runs while other clients write keys that did not exist before; every entry
// that is stable for the whole dump must be in the dump and therefore in the restored cache.
func genC13Conc(r *rand.Rand) *Scenario {
	sc := genBEBase(r, "conc")
	be := sc.BE
	be.Cfg = BEConfig{TTLNs: pick(r, int64(0), -1, 3600*sec), Jitter: -1}

	ns := 4 + r.IntN(16)
	for i := 0; i < ns; i++ {
		be.Keys = append(be.Keys, []byte(fmt.Sprintf("stable-%d-%d", i, r.IntN(1000))))
		op := BEOp{Kind: "write", Key: i}

		if chance(r, 0.5) {
			op.HasTTL, op.TTLNs = true, pick(r, 60*sec, 3600*sec, -60*sec)
		}

		be.Root = append(be.Root, op)
	}

	nn := 1 + r.IntN(6)
	for i := 0; i < nn; i++ {
		be.Keys = append(be.Keys, []byte(fmt.Sprintf("new-%d-%d", i, r.IntN(1000))))
	}

	be.Clients = [][]BEOp{{{Kind: "dump"}}}
	if chance(r, 0.3) {
		be.Clients[0] = append(be.Clients[0], BEOp{Kind: "dump"})
	}

	if chance(r, 0.7) {
		// further goroutines dump at the same time (several exports of one cache), each starting somewhere
		// during the first one (a walk over the shards takes a few hundred steps, the clock ticks once per step)
		for d := 1 + r.IntN(3); d > 0; d-- {
			be.Clients = append(be.Clients, []BEOp{{Kind: "sleep", SleepNs: int64(r.IntN(700)) * sc.TickNs}, {Kind: "dump"}})
		}
	}

	nw := 1 + r.IntN(3)
	for c := 0; c < nw; c++ {
		var ops []BEOp

		for i := c; i < nn; i += nw {
			ops = append(ops, BEOp{Kind: "write", Key: ns + i})
		}

		be.Clients = append(be.Clients, ops)
	}

	sc.NoFastPath = chance(r, 0.5)
	sc.Sched = genSched(r, 600)

	return sc
}

func (r *beRun) oracleC13Conc() {
	out := r.e.out
	stable := map[string]bool{}

	for _, op := range r.sc.Root {
		if op.Kind == "write" {
			stable[string(r.sc.Keys[op.Key])] = true
		}
	}

	for _, rec := range r.recs {
		if rec.kind == "write" || rec.kind == "store" || rec.kind == "delete" {
			delete(stable, rec.key)
		}
	}

	src := map[string]walkEnt{}

	_, _ = r.bk.walk(func(key []byte, v interface{}, exp time.Time) error {
		src[string(key)] = walkEnt{key: string(key), val: v, exp: exp.UnixNano()}

		return nil
	})

	for _, rec := range r.recs {
		if rec.kind != "dump" || !rec.done {
			continue
		}

		out.probe("dump_concurrent_with_writes")

		if rec.err != nil {
			out.violate("C13.R6", r.sc.Backend+" concurrent-dump-failed", "Dump running alongside writes failed: %v", rec.err)

			continue
		}

		cfg := r.cacheConfig()
		cfg.Stats, cfg.Logger, cfg.DeleteExpiredJobInterval = nil, nil, farFuture
		dst := newBackend(r.sc.Backend, cfg)

		n, err := dst.restore(bytes.NewReader(rec.dump))
		if err != nil || n != rec.n {
			out.violate("C13.R3", r.sc.Backend+" concurrent-dump-count", "Dump reported %d entries, Restore of its output gave (%d, %v)", rec.n, n, err)
		}

		got := map[string]walkEnt{}

		_, _ = dst.walk(func(key []byte, v interface{}, exp time.Time) error {
			got[string(key)] = walkEnt{key: string(key), val: v, exp: exp.UnixNano()}

			return nil
		})

		dst.stop()

		for k := range stable {
			w, g := src[k], got[k]
			if _, ok := got[k]; !ok {
				out.violate("C13.R6", r.sc.Backend+" stable-entry-missing-from-concurrent-dump", "entry %q existed unchanged before, during and after the Dump (which ran alongside writes of new keys) but is missing from the dump (%d records)", k, rec.n)

				break
			}

			if g.val != w.val || g.exp != w.exp {
				out.violate("C13.R6", r.sc.Backend+" stable-entry-differs-in-concurrent-dump", "entry %q was dumped as (%v, %v) but holds (%v, %v)", k, g.val, time.Unix(0, g.exp).UTC(), w.val, time.Unix(0, w.exp).UTC())

				break
			}
		}
	}

	out.NonTrivial = true
	out.Outcome = fmt.Sprintf("conc-dump stable=%d", len(stable))
}

// genC18DeleteAll: DeleteAll runs while other clients write keys that did not exist before (every
// key is created exactly once), so cache_delete must equal (keys ever written) - (entries left).
func genC18DeleteAll(r *rand.Rand) *Scenario {
	sc := genBEBase(r, "conc")
	be := sc.BE
	be.Cfg = BEConfig{TTLNs: 3600 * sec, Jitter: -1, Stats: true}

	ns := 2 + r.IntN(10)
	for i := 0; i < ns; i++ {
		be.Keys = append(be.Keys, []byte(fmt.Sprintf("old-%d-%d", i, r.IntN(1000))))
		be.Root = append(be.Root, BEOp{Kind: "write", Key: i})
	}

	nn := 1 + r.IntN(6)
	for i := 0; i < nn; i++ {
		be.Keys = append(be.Keys, []byte(fmt.Sprintf("new-%d-%d", i, r.IntN(1000))))
	}

	kind := pick(r, "deleteAll", "deleteAll", "expireAll")
	be.Clients = [][]BEOp{{{Kind: kind}}}

	if chance(r, 0.3) && kind == "deleteAll" {
		be.Clients = append(be.Clients, []BEOp{{Kind: kind}})
	}

	nw := 1 + r.IntN(3)
	for c := 0; c < nw; c++ {
		var ops []BEOp

		for i := c; i < nn; i += nw {
			ops = append(ops, BEOp{Kind: "write", Key: ns + i})
		}

		be.Clients = append(be.Clients, ops)
	}

	sc.NoFastPath = chance(r, 0.5)
	sc.Sched = genSched(r, 700)

	return sc
}

func genC09(r *rand.Rand, run int, tier string) *Scenario {
	if run%10 == 7 {
		// (e) concurrent operations over a collision family (write of k' racing delete / read of k)
		sc := genC08(r, 0, tier)
		be := sc.BE
		be.Keys, be.Groups = genKeys(r, 1, 2+r.IntN(2))
		be.Keys, be.Groups = be.Keys[len(be.Keys)-len(be.Groups)+1:], be.Groups[1:]

		if be.Backend == "syncmap" {
			be.Backend = pick(r, "sharded", "shardedOf")
		}

		for c := range be.Clients {
			for i := range be.Clients[c] {
				be.Clients[c][i].Key = r.IntN(len(be.Keys))
			}
		}

		return sc
	}

	if run%5 == 4 {
		// (d) InvalidationIndex.AddLabels must not keep the caller's key slice: every labelled key
		// buffer is overwritten right after the call; the label associations must still work
		sc := genC15(r, 0, tier)
		for i := range sc.TR.Index.Setup {
			sc.TR.Index.Setup[i].Mutate = true
		}

		return sc
	}

	switch run % 4 {
	case 0, 1:
		// (a) sequences over colliding keys on the three backends, key buffers rewritten after the call
		sc := genBEBase(r, "seq")
		be := sc.BE
		be.Keys, be.Groups = genKeys(r, 2, 2+r.IntN(3))
		be.Cfg = BEConfig{TTLNs: pick(r, int64(0), -1, sec, 3600*sec), Jitter: -1, Strategy: r.IntN(3)}
		be.Clients = [][]BEOp{genSeqOps(r, len(be.Keys), 2+r.IntN(30), true)}

		return sc
	case 2:
		// (b) Failover: callers rewrite / reuse key buffers while background builds are pending
		sc := genFOBase(r, foShape{minClients: 1, maxClients: 4, maxKeys: 3, maxOps: 4, sleeps: true, skipRead: true, callerTricks: true})
		sc.FO.Cfg.SyncUpdate = false

		for i := range sc.FO.Init {
			if chance(r, 0.6) {
				sc.FO.Init[i].State, sc.FO.Init[i].AgeNs = "stale", ms
			}
		}

		return sc
	default:
		// (c) Failover over colliding keys (backend and failure cache are hash-keyed)
		sc := genFOBase(r, foShape{minClients: 1, maxClients: 3, maxKeys: 1, maxOps: 5, sleeps: true, skipRead: true})
		fo := sc.FO
		fam := collisionFamily(r, 2+r.IntN(2))
		fo.KeyBytes = fam
		fo.Keys = nil
		fo.Init = nil

		for i := range fam {
			fo.Init = append(fo.Init, FOInit{Key: i, State: pick(r, "absent", "fresh", "stale"), AgeNs: ms, FailAgeNs: pick(r, int64(-1), -1, 0)})
		}

		for c := range fo.Clients {
			for i := range fo.Clients[c] {
				if fo.Clients[c][i].Kind == "get" {
					fo.Clients[c][i].Key = r.IntN(len(fam))
				}
			}
		}

		return sc
	}
}

// oracleC09FO is called for FO runs of property C09 (see oracleC09 in fo_oracles.go).
func (r *foRun) collisionProvenance() {
	if len(r.sc.KeyBytes) == 0 {
		return
	}

	out := r.e.out
	save := out.Violations
	out.Violations = nil
	r.oracleC02()

	for _, v := range out.Violations {
		v.Rule = strings.Replace(v.Rule, "C02.", "C09.R1-", 1)
		save = append(save, v)
	}

	out.Violations = save
	out.probe("failover_over_colliding_keys")
	out.NonTrivial = true
}

// --- C18 (backend part) ---------------------------------------------------------------------------------

func genC18BE(r *rand.Rand, run int, _ string) *Scenario {
	if run%16 == 15 {
		return genC18DeleteAll(r)
	}

	mode := "seq"
	if run%4 == 3 {
		mode = "conc"
	}

	sc := genBEBase(r, mode)
	be := sc.BE
	coll := 0
	if chance(r, 0.3) {
		coll = 2 + r.IntN(2) // colliding keys: every read of a slot held by another key is still one cache_miss
	}

	be.Keys, be.Groups = genKeys(r, 4, coll)
	be.Cfg = BEConfig{TTLNs: pick(r, int64(0), -1, sec, 3600*sec), Jitter: pick(r, -1.0, 0), Strategy: r.IntN(3), Stats: true, Logger: chance(r, 0.2)}

	if mode == "seq" {
		be.Clients = [][]BEOp{genSeqOps(r, len(be.Keys), 1+r.IntN(30), false)}

		return sc
	}

	nc := 2 + r.IntN(4)

	if chance(r, 0.5) {
		// contended deletes: the keys are pre-loaded, several clients delete the same ones
		for k := range be.Keys {
			be.Root = append(be.Root, BEOp{Kind: "write", Key: k})
		}

		for c := 0; c < nc; c++ {
			var ops []BEOp

			for i := 0; i < 1+r.IntN(3); i++ {
				ops = append(ops, BEOp{Kind: pick(r, "delete", "delete", "delete", "write", "read"), Key: r.IntN(len(be.Keys))})
			}

			be.Clients = append(be.Clients, ops)
		}

		sc.Sched = genSched(r, 30+nc*20)

		return sc
	}

	for c := 0; c < nc; c++ {
		var ops []BEOp

		for _, op := range genSeqOps(r, len(be.Keys), 1+r.IntN(5), false) {
			if op.Kind == "expireAll" || op.Kind == "deleteAll" || op.Kind == "sleep" {
				continue // "entries present" would be ambiguous under concurrency
			}

			ops = append(ops, op)
		}

		be.Clients = append(be.Clients, ops)
	}

	sc.Sched = genSched(r, 30+nc*20)

	return sc
}

func (r *beRun) oracleC18BE() {
	out := r.e.out
	out.NonTrivial = len(r.recs) > 0

	if !r.sc.Cfg.Stats {
		return // nothing to account for without a stats tracker (the shrinker may have switched it off)
	}

	if len(r.sc.Clients) > 1 && len(r.sc.Clients[0]) > 0 && r.sc.Clients[0][0].Kind == "deleteAll" {
		r.oracleC18DeleteAll()

		return
	}

	if len(r.sc.Clients) > 1 && len(r.sc.Clients[0]) > 0 && r.sc.Clients[0][0].Kind == "expireAll" {
		r.oracleC18ExpireAll()

		return
	}

	got := map[string]float64{}

	for _, s := range r.stats {
		if !s.set && s.label == "be" {
			got[s.name] += s.val
		}
	}

	m := map[string]bool{} // presence model (sequential runs only)
	seq := len(r.sc.Clients) == 1
	reads, writes, deletes, expiredAll := 0, 0, 0, 0
	groups := newRefModel(r)

	// a hash-keyed backend has one slot per 64-bit hash: a write evicts a colliding key's entry
	put := func(key string) {
		if groups.hashKeyed() {
			for k := range m {
				if groups.sameGroup(k, key) {
					delete(m, k)

					out.probe("colliding_write_replaced_entry")
				}
			}
		}

		m[key] = true
	}

	for _, op := range r.sc.Root { // pre-loaded by the root before the clients started
		if op.Kind == "write" {
			writes++

			put(string(r.sc.Keys[op.Key]))
		}
	}

	for _, rec := range r.recs {
		if !rec.done {
			continue
		}

		switch rec.kind {
		case "read":
			if !rec.op.SkipRead {
				reads++
			}
		case "load":
			reads++
		case "write", "store":
			if rec.err == nil {
				writes++

				put(rec.key)
			}
		case "delete":
			// sequential runs: an entry is really removed iff the presence model holds the key;
			// concurrent runs: trust the result (its correctness is C08's subject)
			if (seq && m[rec.key]) || (!seq && rec.err == nil) {
				deletes++
			}

			delete(m, rec.key)
		case "walkDel":
			// Delete calls issued from inside the Walk callback count like any other
			for _, d := range rec.walkDel {
				if (seq && m[d.key]) || (!seq && d.err == nil) {
					deletes++
				}

				delete(m, d.key)
			}
		case "expireAll":
			expiredAll += len(m)
			out.probe("expireAll_counted")
		case "deleteAll":
			deletes += len(m)
			m = map[string]bool{}
			out.probe("deleteAll_counted")
		}
	}

	if !seq {
		// concurrent runs: a successful Delete removes an entry some Write created, so per key
		// there cannot be more successful Deletes than Writes
		w, d := map[string]int{}, map[string]int{}

		for _, op := range r.sc.Root {
			if op.Kind == "write" {
				w[string(r.sc.Keys[op.Key])]++
			}
		}

		for _, rec := range r.recs {
			switch {
			case !rec.done:
			case (rec.kind == "write" || rec.kind == "store") && rec.err == nil:
				w[rec.key]++
			case rec.kind == "delete" && rec.err == nil:
				d[rec.key]++
			}
		}

		for k, n := range d {
			if n > w[k] {
				out.violate("C18.delete", r.sc.Backend+" entry-counted-deleted-twice", "key %q: %d Delete calls reported success (cache_delete counted each) but only %d entries were ever written under it", k, n, w[k])
			}
		}

		out.probe("concurrent_metrics_checked")
	}

	check := func(rule, metric string, want int) {
		if int(got[metric]) != want {
			out.violate("C18."+rule, r.sc.Backend+" "+metric, "metric %s = %v, but the workload had %d such events (%s)", metric, got[metric], want, fmt.Sprintf("%d operations, sequential=%v", len(r.recs), seq))
		}
	}

	check("write", cache.MetricWrite, writes)
	check("delete", cache.MetricDelete, deletes)

	rd := int(got[cache.MetricHit] + got[cache.MetricMiss] + got[cache.MetricExpired])
	if rd != reads+expiredAll {
		out.violate("C18.reads", r.sc.Backend+" hit+miss+expired", "cache_hit+cache_miss+cache_expired = %d, but there were %d non-skipped reads and %d entries touched by ExpireAll", rd, reads, expiredAll)
	}

	out.Outcome = fmt.Sprintf("r=%d w=%d d=%d", reads, writes, deletes)
}

func (r *beRun) oracleC18DeleteAll() {
	out := r.e.out
	written := map[string]bool{}

	for _, op := range r.sc.Root {
		if op.Kind == "write" {
			written[string(r.sc.Keys[op.Key])] = true
		}
	}

	for _, rec := range r.recs {
		if rec.kind == "write" && rec.done && rec.err == nil {
			written[rec.key] = true
		}
	}

	left := r.bk.length()
	del := 0.0

	for _, s := range r.stats {
		if !s.set && s.label == "be" && s.name == cache.MetricDelete {
			del += s.val
		}
	}

	out.probe("deleteAll_concurrent_with_writes")

	if int(del) != len(written)-left {
		out.violate("C18.delete", r.sc.Backend+" deleteAll-count-under-concurrency", "every key was created exactly once (%d keys), %d entries are left, so %d entries were removed by DeleteAll - but cache_delete = %v", len(written), left, len(written)-left, del)
	}

	out.Outcome = fmt.Sprintf("deleteAll conc written=%d left=%d", len(written), left)
}

// ---------------------------------------------------------------------------------------
// C12, concurrent access histories: several clients serve the same keys at the same time, then one
// eviction cycle runs. LFU ranks are the numbers of completed serves (exact under any
// interleaving), LRU ranks are intervals (the last serve instant lies in its read's window).

func genC12Conc(r *rand.Rand) *Scenario {
	sc := genBEBase(r, "evictconc")
	be := sc.BE
	n := 3 + r.IntN(8)
	be.Cfg = BEConfig{
		TTLNs: 3600 * sec, Jitter: -1, DeleteExpiredAfterNs: 1000 * 24 * 3600 * sec, JanitorIntervalNs: 60 * sec,
		EvictFraction: pick(r, 0.2, 0.34, 0.5, 0.75), Strategy: 1 + r.IntN(2), EvictionNeeded: []bool{true}, Stats: chance(r, 0.3),
	}

	for i := 0; i < n; i++ {
		be.Keys = append(be.Keys, []byte(fmt.Sprintf("key-%02d", i)))
		be.Root = append(be.Root, BEOp{Kind: "write", Key: i})
	}

	nc := 2 + r.IntN(5)
	hot := r.IntN(n)

	for c := 0; c < nc; c++ {
		var ops []BEOp

		m := 2 + r.IntN(8)
		for i := 0; i < m; i++ {
			k := r.IntN(n)
			if chance(r, 0.5) {
				k = hot
			}

			ops = append(ops, BEOp{Kind: "read", Key: k})
		}

		be.Clients = append(be.Clients, ops)
	}

	sc.NoFastPath = chance(r, 0.3)
	sc.Sched = genSched(r, 40+nc*40)

	return sc
}

func (r *beRun) modeEvictConc() {
	e := r.e
	out := e.out
	cfg := r.sc.Cfg

	for i := range r.sc.Root {
		r.rootSleep(1000)
		r.exec(-1, i, &r.sc.Root[i])
	}

	r.recs = nil
	r.spawnClients()

	if !e.runAll("") {
		return
	}

	e.checkPanics()

	type rank struct {
		serves int
		lo, hi int64
	}

	ranks := map[string]*rank{}
	for _, k := range r.sc.Keys {
		ranks[string(k)] = &rank{}
	}

	overlap := false

	var served []*beRec

	for _, rec := range r.recs {
		if rec.kind == "read" && rec.done && errKind(rec.err) != "notfound" {
			served = append(served, rec)
		}
	}

	for i, rec := range served {
		rk := ranks[rec.key]
		rk.serves++

		// The timestamp an entry ends up with is the one stored by a serve that is not strictly
		// followed by another serve of the same key (stores of overlapping serves may land in any
		// order): its instant lies in that serve's [invoke, return] window.
		maximal := true

		for j, o := range served {
			if j != i && o.key == rec.key && o.inv > rec.ret {
				maximal = false
			}

			if j > i && o.key == rec.key && o.client != rec.client && overlapping(rec.inv, rec.ret, o.inv, o.ret) {
				overlap = true
			}
		}

		if !maximal {
			continue
		}

		if rk.lo == 0 || rec.invT < rk.lo {
			rk.lo = rec.invT
		}

		if rec.retT > rk.hi {
			rk.hi = rec.retT
		}
	}

	if overlap {
		out.probe("overlapping_serves_of_one_key")
	}

	before := map[string]bool{}

	_, _ = r.bk.walk(func(key []byte, _ interface{}, _ time.Time) error {
		before[string(key)] = true

		return nil
	})

	wakes := r.janitor.Wakes
	out.fault("clock_jump")

	if v := e.s.Advance(dur(cfg.JanitorIntervalNs) + time.Millisecond); v != zs.Quiescent || r.janitor.Wakes != wakes+1 {
		out.Internal = fmt.Sprintf("evictconc: advance %v, cycles %d", v, r.janitor.Wakes-wakes)

		return
	}

	out.fault("janitor_cycle")

	var removed, kept []string

	after := map[string]bool{}

	_, _ = r.bk.walk(func(key []byte, _ interface{}, _ time.Time) error {
		after[string(key)] = true

		return nil
	})

	for k := range before {
		if after[k] {
			kept = append(kept, k)
		} else {
			removed = append(removed, k)
		}
	}

	sort.Strings(removed)
	sort.Strings(kept)

	class := fmt.Sprintf("%s strategy=%d concurrent-serves", r.sc.Backend, cfg.Strategy)
	want := math.Floor(float64(len(before)) * cfg.EvictFraction)

	if math.Abs(float64(len(removed))-want) > 1.000001 {
		out.violate("C12.R2", class+" fraction-amount", "EvictionNeeded returned true: %d entries, EvictFraction=%v: %d removed, expected %.0f (+-1)", len(before), cfg.EvictFraction, len(removed), want)
	}

	for _, x := range removed {
		for _, y := range kept {
			rx, ry := ranks[x], ranks[y]

			switch cfg.Strategy {
			case 2:
				if rx.serves > ry.serves {
					out.violate("C12.R3", class+" order", "LFU: removed entry %q was served %d times, kept entry %q only %d times (serves by several clients overlapped)", x, rx.serves, y, ry.serves)
				}
			case 1:
				if rx.lo > ry.hi {
					out.violate("C12.R3", class+" order", "LRU: removed entry %q was last served after t=%v, kept entry %q last served before t=%v", x, time.Unix(0, rx.lo).UTC(), y, time.Unix(0, ry.hi).UTC())
				}
			}
		}
	}

	out.probe("order_checked")
	out.NonTrivial = true
	out.Outcome = fmt.Sprintf("evictconc n=%d removed=%d", len(before), len(removed))
}

// oracleC18ExpireAll: one ExpireAll runs while other clients write keys that did not exist before
// (long TTL, no reads): the entries it touched are exactly those that read as expired afterwards, and
// cache_expired must equal their number.
func (r *beRun) oracleC18ExpireAll() {
	out := r.e.out
	expired := 0

	now := time.Now().UnixNano()

	_, _ = r.bk.walk(func(_ []byte, _ interface{}, exp time.Time) error {
		if e := exp.UnixNano(); e != 0 && e < now {
			expired++
		}

		return nil
	})

	got := 0.0

	for _, s := range r.stats {
		if !s.set && s.label == "be" && s.name == cache.MetricExpired {
			got += s.val
		}
	}

	out.probe("expireAll_concurrent_with_writes")

	if int(got) != expired {
		out.violate("C18.reads", r.sc.Backend+" expireAll-count-under-concurrency", "ExpireAll ran alongside writes of new keys: %d entries are expired afterwards (the ones it touched), but cache_expired = %v", expired, got)
	}

	out.Outcome = fmt.Sprintf("expireAll conc expired=%d", expired)
}
