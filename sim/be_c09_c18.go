package sim

import (
	"fmt"
	"math/rand/v2"
	"strings"

	"github.com/bool64/cache"
)

func init() {
	gens["C09"] = genC09
	beOracles["C09"] = func(r *beRun) {
		m := newRefModel(r)
		m.checkSeq("C09", r.recs)
		r.seqReach()

		coll, mut := false, false

		for _, rec := range r.recs {
			if rec.op.Mutate {
				mut = true
			}

			if (rec.kind == "write" || rec.kind == "store") && m.group(rec.key) >= 0 {
				coll = true
			}
		}

		if coll {
			r.e.out.probe("write_to_colliding_key")
		}

		if mut {
			r.e.out.probe("key_buffer_rewritten_after_backend_call")
		}
	}
	beOracles["C18"] = (*beRun).oracleC18BE
}

func genC09(r *rand.Rand, run int, tier string) *Scenario {
	if run%5 == 4 {
		// (d) InvalidationIndex.AddLabels must not keep the caller's key slice: every labelled key
		// buffer is overwritten right after the call; the label associations must still work
		sc := genC15(r, 0, tier)
		for i := range sc.TR.Index.Setup {
			sc.TR.Index.Setup[i].Mutate = true
		}

		return sc
	}

	switch run % 4 {
	case 0, 1:
		// (a) sequences over colliding keys on the three backends, key buffers rewritten after the call
		sc := genBEBase(r, "seq")
		be := sc.BE
		be.Keys, be.Groups = genKeys(r, 2, 2+r.IntN(3))
		be.Cfg = BEConfig{TTLNs: pick(r, int64(0), -1, sec, 3600*sec), Jitter: -1, Strategy: r.IntN(3)}
		be.Clients = [][]BEOp{genSeqOps(r, len(be.Keys), 2+r.IntN(30), true)}

		return sc
	case 2:
		// (b) Failover: callers rewrite / reuse key buffers while background builds are pending
		sc := genFOBase(r, foShape{minClients: 1, maxClients: 4, maxKeys: 3, maxOps: 4, sleeps: true, skipRead: true, callerTricks: true})
		sc.FO.Cfg.SyncUpdate = false

		for i := range sc.FO.Init {
			if chance(r, 0.6) {
				sc.FO.Init[i].State, sc.FO.Init[i].AgeNs = "stale", ms
			}
		}

		return sc
	default:
		// (c) Failover over colliding keys (backend and failure cache are hash-keyed)
		sc := genFOBase(r, foShape{minClients: 1, maxClients: 3, maxKeys: 1, maxOps: 5, sleeps: true, skipRead: true})
		fo := sc.FO
		fam := collisionFamily(r, 2+r.IntN(2))
		fo.KeyBytes = fam
		fo.Keys = nil
		fo.Init = nil

		for i := range fam {
			fo.Init = append(fo.Init, FOInit{Key: i, State: pick(r, "absent", "fresh", "stale"), AgeNs: ms, FailAgeNs: pick(r, int64(-1), -1, 0)})
		}

		for c := range fo.Clients {
			for i := range fo.Clients[c] {
				if fo.Clients[c][i].Kind == "get" {
					fo.Clients[c][i].Key = r.IntN(len(fam))
				}
			}
		}

		return sc
	}
}

// oracleC09FO is called for FO runs of property C09 (see oracleC09 in fo_oracles.go).
func (r *foRun) collisionProvenance() {
	if len(r.sc.KeyBytes) == 0 {
		return
	}

	out := r.e.out
	save := out.Violations
	out.Violations = nil
	r.oracleC02()

	for _, v := range out.Violations {
		v.Rule = strings.Replace(v.Rule, "C02.", "C09.R1-", 1)
		save = append(save, v)
	}

	out.Violations = save
	out.probe("failover_over_colliding_keys")
	out.NonTrivial = true
}

// --- C18 (backend part) ---------------------------------------------------------------------------------

func genC18BE(r *rand.Rand, run int, _ string) *Scenario {
	mode := "seq"
	if run%4 == 3 {
		mode = "conc"
	}

	sc := genBEBase(r, mode)
	be := sc.BE
	be.Keys, be.Groups = genKeys(r, 4, 0)
	be.Cfg = BEConfig{TTLNs: pick(r, int64(0), -1, sec, 3600*sec), Jitter: pick(r, -1.0, 0), Strategy: r.IntN(3), Stats: true, Logger: chance(r, 0.2)}

	if mode == "seq" {
		be.Clients = [][]BEOp{genSeqOps(r, len(be.Keys), 1+r.IntN(30), false)}

		return sc
	}

	nc := 2 + r.IntN(4)

	if chance(r, 0.5) {
		// contended deletes: the keys are pre-loaded, several clients delete the same ones
		for k := range be.Keys {
			be.Root = append(be.Root, BEOp{Kind: "write", Key: k})
		}

		for c := 0; c < nc; c++ {
			var ops []BEOp

			for i := 0; i < 1+r.IntN(3); i++ {
				ops = append(ops, BEOp{Kind: pick(r, "delete", "delete", "delete", "write", "read"), Key: r.IntN(len(be.Keys))})
			}

			be.Clients = append(be.Clients, ops)
		}

		sc.Sched = genSched(r, 30+nc*20)

		return sc
	}

	for c := 0; c < nc; c++ {
		var ops []BEOp

		for _, op := range genSeqOps(r, len(be.Keys), 1+r.IntN(5), false) {
			if op.Kind == "expireAll" || op.Kind == "deleteAll" || op.Kind == "sleep" {
				continue // "entries present" would be ambiguous under concurrency
			}

			ops = append(ops, op)
		}

		be.Clients = append(be.Clients, ops)
	}

	sc.Sched = genSched(r, 30+nc*20)

	return sc
}

func (r *beRun) oracleC18BE() {
	out := r.e.out
	out.NonTrivial = len(r.recs) > 0

	got := map[string]float64{}

	for _, s := range r.stats {
		if !s.set && s.label == "be" {
			got[s.name] += s.val
		}
	}

	m := map[string]bool{} // presence model (sequential runs only)
	seq := len(r.sc.Clients) == 1
	reads, writes, deletes, expiredAll := 0, 0, 0, 0

	for _, op := range r.sc.Root { // pre-loaded by the root before the clients started
		if op.Kind == "write" {
			writes++
			m[string(r.sc.Keys[op.Key])] = true
		}
	}

	for _, rec := range r.recs {
		if !rec.done {
			continue
		}

		switch rec.kind {
		case "read":
			if !rec.op.SkipRead {
				reads++
			}
		case "load":
			reads++
		case "write", "store":
			if rec.err == nil {
				writes++
				m[rec.key] = true
			}
		case "delete":
			// sequential runs: an entry is really removed iff the presence model holds the key;
			// concurrent runs: trust the result (its correctness is C08's subject)
			if (seq && m[rec.key]) || (!seq && rec.err == nil) {
				deletes++
			}

			delete(m, rec.key)
		case "expireAll":
			expiredAll += len(m)
			out.probe("expireAll_counted")
		case "deleteAll":
			deletes += len(m)
			m = map[string]bool{}
			out.probe("deleteAll_counted")
		}
	}

	if !seq {
		// concurrent runs: a successful Delete removes an entry some Write created, so per key
		// there cannot be more successful Deletes than Writes
		w, d := map[string]int{}, map[string]int{}

		for _, op := range r.sc.Root {
			if op.Kind == "write" {
				w[string(r.sc.Keys[op.Key])]++
			}
		}

		for _, rec := range r.recs {
			switch {
			case !rec.done:
			case (rec.kind == "write" || rec.kind == "store") && rec.err == nil:
				w[rec.key]++
			case rec.kind == "delete" && rec.err == nil:
				d[rec.key]++
			}
		}

		for k, n := range d {
			if n > w[k] {
				out.violate("C18.delete", r.sc.Backend+" entry-counted-deleted-twice", "key %q: %d Delete calls reported success (cache_delete counted each) but only %d entries were ever written under it", k, n, w[k])
			}
		}

		out.probe("concurrent_metrics_checked")
	}

	check := func(rule, metric string, want int) {
		if int(got[metric]) != want {
			out.violate("C18."+rule, r.sc.Backend+" "+metric, "metric %s = %v, but the workload had %d such events (%s)", metric, got[metric], want, fmt.Sprintf("%d operations, sequential=%v", len(r.recs), seq))
		}
	}

	check("write", cache.MetricWrite, writes)
	check("delete", cache.MetricDelete, deletes)

	rd := int(got[cache.MetricHit] + got[cache.MetricMiss] + got[cache.MetricExpired])
	if rd != reads+expiredAll {
		out.violate("C18.reads", r.sc.Backend+" hit+miss+expired", "cache_hit+cache_miss+cache_expired = %d, but there were %d non-skipped reads and %d entries touched by ExpireAll", rd, reads, expiredAll)
	}

	out.Outcome = fmt.Sprintf("r=%d w=%d d=%d", reads, writes, deletes)
}
