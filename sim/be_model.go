package sim

import (
	"errors"
	"fmt"
	"sort"
	"strings"
	"time"

	"github.com/bool64/cache"
)

// mEntry is one entry of the reference map. The expiry instant is an interval because the
// library reads the clock somewhere inside the operation's [invoke, return] window.
type mEntry struct {
	val          Tok
	never        bool
	expLo, expHi int64
	// maybeLost: a colliding key (same 64-bit hash) was written after this entry: the
	// property allows this entry to have become a cache miss.
	maybeLost bool
	writeLo   int64
	writeHi   int64
}

type refModel struct {
	r *beRun
	m map[string]*mEntry
}

func newRefModel(r *beRun) *refModel { return &refModel{r: r, m: map[string]*mEntry{}} }

func (m *refModel) group(key string) int {
	for i, k := range m.r.sc.Keys {
		if string(k) == key && i < len(m.r.sc.Groups) {
			return m.r.sc.Groups[i]
		}
	}

	return -1
}

func (m *refModel) sameGroup(a, b string) bool {
	if a == b {
		return false
	}

	ga, gb := m.group(a), m.group(b)

	return ga >= 0 && ga == gb
}

// hashKeyed: ShardedMap variants index entries by the 64-bit hash.
func (m *refModel) hashKeyed() bool { return m.r.sc.Backend != "syncmap" }

func (m *refModel) applyWrite(rec *beRec) {
	ttl, never := m.r.effTTL(rec.op)
	if rec.kind == "store" {
		ttl, never = m.r.effTTL(&BEOp{Kind: "store"})
	}

	en := &mEntry{val: rec.tok, never: never, writeLo: rec.invT, writeHi: rec.retT}

	if !never {
		j := m.r.jitterFrac()
		half := time.Duration(float64(absDur(ttl)) * j / 2)
		slack := time.Duration(float64(absDur(ttl))/float64(int64(1)<<50)) + 1

		if j == 0 {
			half, slack = 0, 0
		}

		en.expLo = rec.invT + int64(ttl) - int64(half) - int64(slack)
		en.expHi = rec.retT + int64(ttl) + int64(half) + int64(slack)
	}

	if m.hashKeyed() {
		for k, o := range m.m {
			if m.sameGroup(k, rec.key) {
				o.maybeLost = true
			}
		}
	}

	m.m[rec.key] = en
}

func absDur(d time.Duration) time.Duration {
	if d < 0 {
		return -d
	}

	return d
}

// freshness: 1 definitely fresh, -1 definitely expired, 0 either (window overlaps expiry).
func (en *mEntry) freshness(invT, retT int64) int {
	if en.never {
		return 1
	}
	// library: expired iff E != 0 && E < now, now in [invT, retT]
	if en.expHi < invT {
		return -1
	}

	if en.expLo >= retT {
		return 1
	}

	return 0
}

func errKind(err error) string {
	switch {
	case err == nil:
		return "nil"
	case errors.Is(err, cache.ErrNotFound):
		return "notfound"
	case errors.Is(err, cache.ErrExpired):
		return "expired"
	}

	return "other:" + err.Error()
}

// checkSeq replays the single client's history against the reference map.
func (m *refModel) checkSeq(prop string, recs []*beRec) {
	out := m.r.e.out

	bad := func(rec *beRec, format string, args ...interface{}) {
		out.violate(prop+"."+rec.kind, m.r.sc.Backend+" "+violClass(format), "%s %s(%q): %s", rec.id(), rec.kind, rec.key, fmt.Sprintf(format, args...))
	}

	for _, rec := range recs {
		if !rec.done || rec.panicV != nil {
			continue
		}

		en := m.m[rec.key]

		switch rec.kind {
		case "write", "store":
			if rec.err != nil {
				bad(rec, "write failed: %v", rec.err)
			}

			m.applyWrite(rec)

		case "read":
			switch {
			case rec.op.SkipRead:
				if errKind(rec.err) != "notfound" {
					bad(rec, "SkipRead context must always give ErrNotFound, got (%v, %v)", rec.val, rec.err)
				}
			case en == nil:
				if errKind(rec.err) != "notfound" {
					bad(rec, "missing key must give ErrNotFound, got (%v, %v)", rec.val, rec.err)
				}
			default:
				m.checkRead(rec, en, bad)
			}

		case "load":
			switch {
			case en == nil:
				if rec.ok {
					bad(rec, "Load of a missing key reported ok with %v", rec.val)
				}
			default:
				f := en.freshness(rec.invT, rec.retT)
				if en.maybeLost && !rec.ok {
					delete(m.m, rec.key)

					break
				}

				if f == 1 && (!rec.ok || rec.val != interface{}(en.val)) {
					bad(rec, "Load of a fresh entry must return (%v, true), got (%v, %v)", en.val, rec.val, rec.ok)
				}

				if f == -1 && rec.ok {
					bad(rec, "Load of an expired entry reported ok with %v", rec.val)
				}
			}

		case "delete":
			switch {
			case en == nil:
				if errKind(rec.err) != "notfound" {
					bad(rec, "Delete of a missing key must report ErrNotFound, got %v", rec.err)
				}
			case en.maybeLost && errKind(rec.err) == "notfound":
				delete(m.m, rec.key)
			default:
				if rec.err != nil {
					bad(rec, "Delete of an existing key must succeed, got %v", rec.err)
				}

				delete(m.m, rec.key)
			}

		case "expireAll":
			// Everything that has not expired yet expires now. An entry that expired earlier keeps its expiry
			// time: expiring it again must not make it younger (for MaxStaleness, for DeleteExpiredAfter).
			for _, o := range m.m {
				if o.never || o.expLo > rec.invT {
					o.expLo = rec.invT
				}

				if o.never || o.expHi > rec.retT {
					o.expHi = rec.retT
				}

				o.never = false
			}

		case "deleteAll":
			m.m = map[string]*mEntry{}

		case "len":
			lo, hi := 0, 0

			for _, o := range m.m {
				hi++

				if !o.maybeLost {
					lo++
				}
			}

			if rec.n < lo || rec.n > hi {
				bad(rec, "Len()=%d but the reference map holds %d..%d entries", rec.n, lo, hi)
			}

		case "walk":
			m.checkWalk(rec, bad)

		case "walkDel":
			m.checkWalk(rec, bad)

			for _, d := range rec.walkDel {
				if d.err != nil && m.m[d.key] != nil && !m.m[d.key].maybeLost {
					bad(rec, "Delete(%q) issued from the Walk callback that was just shown this entry returned %v", d.key, d.err)
				}

				delete(m.m, d.key)
			}

		case "walkErr":
			if !errors.Is(rec.walkErr, errWalkStop) {
				if m.surelyHeld() > int(rec.op.SleepNs) {
					bad(rec, "Walk whose callback failed must return that error, got (%d, %v)", rec.n, rec.walkErr)
				}
			} else if rec.n != len(rec.walk) {
				bad(rec, "Walk stopped by a failing callback returned n=%d after %d successful callbacks", rec.n, len(rec.walk))
			}

		case "dumpErr":
			if rec.err == nil && m.surelyHeld() > 0 && rec.op.SleepNs < 8 {
				bad(rec, "Dump into a failing writer returned (%d, nil)", rec.n)
			}
		}
	}
}

// surelyHeld counts entries the cache must still hold (a colliding later write may have cost the others).
func (m *refModel) surelyHeld() int {
	n := 0

	for _, en := range m.m {
		if !en.maybeLost {
			n++
		}
	}

	return n
}

func violClass(format string) string {
	f := strings.Fields(format)
	if len(f) > 6 {
		f = f[:6]
	}

	return strings.Join(f, "-")
}

func (m *refModel) checkRead(rec *beRec, en *mEntry, bad func(rec *beRec, format string, args ...interface{})) {
	if en.maybeLost && errKind(rec.err) == "notfound" {
		delete(m.m, rec.key) // the collision cost a cache miss: allowed

		return
	}

	f := en.freshness(rec.invT, rec.retT)
	k := errKind(rec.err)

	if k == "nil" {
		if f == -1 {
			bad(rec, "entry expired at %v (read at %v) but Read returned it as fresh: (%v, nil)", time.Unix(0, en.expHi).UTC(), time.Unix(0, rec.invT).UTC(), rec.val)

			return
		}

		if rec.val != interface{}(en.val) {
			bad(rec, "Read returned %v, last written value is %v", rec.val, en.val)
		}

		return
	}

	if k != "expired" {
		bad(rec, "existing entry must be returned or reported expired, got (%v, %v)", rec.val, rec.err)

		return
	}

	if f == 1 {
		bad(rec, "entry is fresh until %v (read at %v) but Read reported ErrExpired", time.Unix(0, en.expLo).UTC(), time.Unix(0, rec.retT).UTC())

		return
	}

	v, at, ok := rec.expVal, time.Unix(0, rec.expAt), rec.expOK
	if !ok {
		bad(rec, "expired error does not carry the expired item (ErrWithExpiredItem): %T", rec.err)

		return
	}

	if v != interface{}(en.val) {
		bad(rec, "expired error carries %v, last written value is %v", v, en.val)
	}

	if at.UnixNano() < en.expLo || at.UnixNano() > en.expHi {
		bad(rec, "expired error reports ExpiredAt=%v, the entry expired within [%v, %v]", at.UTC(), time.Unix(0, en.expLo).UTC(), time.Unix(0, en.expHi).UTC())
	}
}

func (m *refModel) checkWalk(rec *beRec, bad func(rec *beRec, format string, args ...interface{})) {
	if rec.walkErr != nil {
		bad(rec, "Walk failed: %v", rec.walkErr)
	}

	seen := map[string]int{}

	for _, w := range rec.walk {
		seen[w.key]++

		en := m.m[w.key]
		if en == nil {
			bad(rec, "Walk visited key %q with %v which the reference map does not hold", w.key, w.val)

			continue
		}

		if w.val != interface{}(en.val) {
			bad(rec, "Walk visited key %q with value %v, last written value is %v", w.key, w.val, en.val)
		}

		switch {
		case en.never && w.exp != 0:
			bad(rec, "Walk reports ExpireAt=%v for key %q which never expires", time.Unix(0, w.exp).UTC(), w.key)
		case !en.never && (w.exp < en.expLo || w.exp > en.expHi):
			bad(rec, "Walk reports ExpireAt=%v for key %q, expected within [%v, %v]", time.Unix(0, w.exp).UTC(), w.key, time.Unix(0, en.expLo).UTC(), time.Unix(0, en.expHi).UTC())
		}
	}

	for k, n := range seen {
		if n > 1 {
			bad(rec, "Walk visited key %q %d times", k, n)
		}
	}

	keys := make([]string, 0, len(m.m))
	for k := range m.m {
		keys = append(keys, k)
	}

	sort.Strings(keys)

	for _, k := range keys {
		if seen[k] == 0 && !m.m[k].maybeLost {
			bad(rec, "Walk did not visit key %q which the reference map holds", k)
		}
	}

	if rec.n != len(rec.walk) {
		bad(rec, "Walk returned n=%d but invoked the callback %d times", rec.n, len(rec.walk))
	}
}
