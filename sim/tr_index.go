package sim

import (
	"context"
	"errors"
	"fmt"
	"math"
	"math/rand/v2"
	"sort"
	"strings"
	"time"

	"github.com/bool64/cache"
	zs "github.com/bool64/cache/zzverifsim"
)

// IndexOp is one operation on an InvalidationIndex.
type IndexOp struct {
	Kind   string   `json:"kind"` // addLabels | invalidate | addCache | write | sleep
	Name   string   `json:"name,omitempty"`
	Key    int      `json:"key,omitempty"`
	Labels []string `json:"labels,omitempty"`
	Cache  int      `json:"cache,omitempty"` // addCache / write: index into Caches
	Mutate bool     `json:"mutate,omitempty"`
	// CtxDone: InvalidateByLabels gets an already cancelled context (the deleters of this harness, like the
	// library's backends, do not look at it: the call must behave as with a live one).
	CtxDone bool `json:"ctx_done,omitempty"`
}

// IndexCache is one deleter registered under a cache name.
type IndexCache struct {
	Name    string `json:"name"`
	Backend string `json:"backend"`
	Keys    []int  `json:"keys,omitempty"` // keys initially present
	Late    bool   `json:"late,omitempty"` // registered by an addCache operation, not at setup
}

// IndexScenario drives an InvalidationIndex.
type IndexScenario struct {
	Keys   []string     `json:"keys"`
	Caches []IndexCache `json:"caches"`
	Setup  []IndexOp    `json:"setup,omitempty"` // executed by the root before the clients start
	// FailAt: ordinal of the Delete call (across all deleters) that fails; -1 none.
	FailAt  int         `json:"fail_at"`
	Clients [][]IndexOp `json:"clients"`
	Retry   bool        `json:"retry,omitempty"` // after a failed invalidate, retry the same labels without faults
	// RetryEach: the retry is one fault-free call per label (in the given order of the failed call's labels,
	// rotated by RetryRot) instead of one call with all of them: a key that was not deleted must still be
	// indexed under every one of its labels.
	RetryEach bool `json:"retry_each,omitempty"`
	RetryRot  int  `json:"retry_rot,omitempty"`
	// Sweep: after the clients finished, InvalidateByLabels(Sweep...) runs without faults; afterwards
	// no key that was ever labelled may be left in a cache of its name.
	Sweep []string `json:"sweep,omitempty"`
	// CtorDefault: the deleters of the "default" name are handed to NewInvalidationIndex instead of
	// AddCache, and labels of that name are added through AddInvalidationLabels.
	CtorDefault bool `json:"ctor_default,omitempty"`
	// CtorSpare (with CtorDefault): the caller built the constructor's argument as a slice with spare capacity
	// (all := make([]Deleter, 0, n); NewInvalidationIndex(all...)) and keeps appending caches of its own to that
	// slice afterwards (after the setup and after every AddCache). Those later elements were never registered:
	// the index must neither call them nor lose a cache it was given through AddCache.
	CtorSpare bool `json:"ctor_spare,omitempty"`
}

func init() {
	gens["C15"] = genC15
	gens["C17"] = genC17
}

// c15Sweep: fault runs come in families of c15Sweep consecutive fault-run slots that share one
// incidence structure; the failing Delete ordinal sweeps 0..c15Sweep-1, i.e. every delete
// position of the family's InvalidateByLabels call is failed once (positions beyond the last
// Delete call fire nothing and are counted as such).
const c15Sweep = 12

func genC15(r *rand.Rand, run int, _ string) *Scenario {
	failPos := -1

	if run%3 == 1 {
		slot := run / 3
		failPos = slot % c15Sweep
		r = newRng(genSeed, uint64(slot/c15Sweep), 1515) // same structure for the whole family
	}

	sc := &Scenario{Engine: "tr", TickNs: pick(r, int64(1), 100, 1000), MapSeed: r.Uint64(), JitterSeed: r.Uint64()}
	sc.NoFastPath = chance(r, 0.1)
	ix := &IndexScenario{FailAt: -1}
	sc.TR = &TRScenario{Mode: "index", Index: ix}

	nk := 1 + r.IntN(6)
	for i := 0; i < nk; i++ {
		ix.Keys = append(ix.Keys, fmt.Sprintf("key%d", i))
	}

	names := []string{"default", "users", "orders"}[:1+r.IntN(3)]
	labels := []string{"la", "lb", "lc", "ld"}[:1+r.IntN(4)]
	ix.CtorDefault = chance(r, 0.4)
	ix.CtorSpare = ix.CtorDefault && chance(r, 0.5)

	if chance(r, 0.25) {
		// unusual but valid keys, labels and names
		odd := []string{"", "\x00", "key0\x00", strings.Repeat("K", 300), "k,ey", "ключ"}
		for i := 0; i < nk && i < len(odd); i++ {
			ix.Keys[i] = odd[i]
		}

		labels = []string{"", "la", "la,lb", " la", "метка"}[:1+r.IntN(5)]
		names = []string{"default", "", "users/eu"}[:1+r.IntN(3)]
	}

	if chance(r, 0.15) {
		// Cache names and keys whose concatenation is ambiguous under a separator somebody might join them with:
		// ("t", "1<sep>k") and ("t<sep>1", "k"). They are different caches and different keys.
		sep := pick(r, ":", "/", "|", ".", "-", "_", "#", ",", " ", "\x00", "")
		names = []string{"t", "t" + sep + "1", "default"}[:2+r.IntN(2)]
		ix.Keys = []string{"1" + sep + "k", "k", "1", sep + "k"}
		nk = len(ix.Keys)
	}

	collide := chance(r, 0.1)
	if collide {
		// two distinct keys with one xxhash64 sum (constructed), held by caches that can hold both (SyncMap):
		// for the index they are two keys like any others
		cf := collisionFamily(r, 2)
		ix.Keys = []string{string(cf[0]), string(cf[1]), "key2"}
		nk = len(ix.Keys)
	}

	for _, n := range names {
		nd := 1 + r.IntN(3)
		for d := 0; d < nd; d++ {
			c := IndexCache{Name: n, Backend: pick(r, "sharded", "syncmap", "shardedOf")}
			if collide {
				c.Backend = "syncmap"
			}

			for k := 0; k < nk; k++ {
				if chance(r, 0.7) {
					c.Keys = append(c.Keys, k)
				}
			}

			ix.Caches = append(ix.Caches, c)
		}
	}

	// incidence structure
	nl := r.IntN(3 * nk)
	for i := 0; i < nl; i++ {
		op := IndexOp{Kind: "addLabels", Name: pick(r, names...), Key: r.IntN(nk), Mutate: chance(r, 0.2)}
		if chance(r, 0.06) {
			op.Name = "ghost" // labels for a cache name nothing is registered under
		}

		n := 1 + r.IntN(3)
		for j := 0; j < n; j++ {
			op.Labels = append(op.Labels, pick(r, labels...)) // repeated labelling possible
		}

		ix.Setup = append(ix.Setup, op)
	}

	inv := func() IndexOp {
		op := IndexOp{Kind: "invalidate"}
		ls := append([]string(nil), labels...)
		r.Shuffle(len(ls), func(i, j int) { ls[i], ls[j] = ls[j], ls[i] })
		op.Labels = ls[:1+r.IntN(len(ls))]

		if chance(r, 0.15) {
			op.Labels = append(op.Labels, "never-used")
		}

		if chance(r, 0.15) {
			// the same label twice in one call
			op.Labels = append(op.Labels, op.Labels[r.IntN(len(op.Labels))])
		}

		op.CtxDone = chance(r, 0.08)

		return op
	}

	if run%12 == 8 {
		// several clients invalidate the same labels at the same time and one Delete call fails: whoever is
		// told "nil" may rely on the labelled keys being gone
		ix.FailAt = r.IntN(3)

		nc := 2 + r.IntN(2)
		for c := 0; c < nc; c++ {
			ops := []IndexOp{{Kind: "invalidate", Labels: append([]string(nil), labels...)}}
			if chance(r, 0.3) {
				ops = append(ops, inv())
			}

			ix.Clients = append(ix.Clients, ops)
		}

		sc.Sched = genSched(r, 60)

		return sc
	}

	if run%12 == 5 {
		// An InvalidateByLabels call over all labels (no fault) while other tasks write keys back and label them
		// again; afterwards a fault-free sweep over all labels must remove every key that was labelled after the
		// last Delete it received.
		ix.Clients = [][]IndexOp{{{Kind: "invalidate", Labels: append([]string(nil), labels...)}}}
		ix.Sweep = labels

		nc := 1 + r.IntN(3)
		for c := 0; c < nc; c++ {
			var ops []IndexOp

			for i := 0; i < 1+r.IntN(3); i++ {
				k := r.IntN(nk)
				ops = append(ops, IndexOp{Kind: "write", Cache: r.IntN(len(ix.Caches)), Key: k},
					IndexOp{Kind: "addLabels", Name: pick(r, names...), Key: k, Labels: []string{pick(r, labels...)}})
			}

			ix.Clients = append(ix.Clients, ops)
		}

		sc.Sched = genSched(r, 80)

		return sc
	}

	if run%12 == 11 {
		// concurrent AddLabels while an InvalidateByLabels call hits a deleter failure; afterwards a
		// fault-free sweep over all labels must remove every key that was ever labelled
		ix.Clients = [][]IndexOp{{inv()}}
		ix.FailAt = r.IntN(4)
		ix.Sweep = labels

		nc := 1 + r.IntN(3)
		for c := 0; c < nc; c++ {
			var ops []IndexOp

			for i := 0; i < 1+r.IntN(2); i++ {
				ops = append(ops, IndexOp{Kind: "addLabels", Name: pick(r, names...), Key: r.IntN(nk), Labels: []string{pick(r, labels...)}})
			}

			ix.Clients = append(ix.Clients, ops)
		}

		sc.Sched = genSched(r, 60)

		return sc
	}

	switch run % 3 {
	case 0: // sequential, fault-free
		var ops []IndexOp

		// bookkeeping over several calls: keys are written back, labelled again (under one or several
		// labels and names), a cache is registered late, and every InvalidateByLabels in between is judged
		late := -1
		if chance(r, 0.4) {
			ix.Caches = append(ix.Caches, IndexCache{Name: pick(r, "late", names[0]), Backend: pick(r, "sharded", "syncmap"), Late: true, Keys: []int{0, nk - 1}})
			late = len(ix.Caches) - 1
		}

		n := 1 + r.IntN(4)
		for i := 0; i < n; i++ {
			ops = append(ops, inv())

			for j := r.IntN(4); j > 0; j-- {
				switch r.IntN(5) {
				case 0, 1:
					op := IndexOp{Kind: "addLabels", Name: pick(r, append(names, "late")...), Key: r.IntN(nk)}
					for l := 1 + r.IntN(2); l > 0; l-- {
						op.Labels = append(op.Labels, pick(r, labels...))
					}

					ops = append(ops, op)
				case 2, 3:
					ops = append(ops, IndexOp{Kind: "write", Cache: r.IntN(len(ix.Caches)), Key: r.IntN(nk)})
				default:
					if late >= 0 {
						ops = append(ops, IndexOp{Kind: "addCache", Cache: late})
						late = -1
					}
				}
			}
		}

		ix.Clients = [][]IndexOp{ops}
		sc.Sched = SchedSpec{Kind: "random", Seed: r.Uint64()}
	case 1: // a deleter failure at every position, then retry
		ix.Clients = [][]IndexOp{{inv()}}
		ix.FailAt = failPos
		ix.Retry = true
		ix.RetryEach = chance(r, 0.4)
		ix.RetryRot = r.IntN(4)
		sc.Sched = SchedSpec{Kind: "random", Seed: r.Uint64()}
	default: // concurrent
		nc := 2 + r.IntN(3)
		// one late cache under a new or existing name
		ix.Caches = append(ix.Caches, IndexCache{Name: pick(r, "late", names[0]), Backend: pick(r, "sharded", "syncmap"), Late: true, Keys: []int{0}})

		for c := 0; c < nc; c++ {
			var ops []IndexOp

			n := 1 + r.IntN(3)
			for i := 0; i < n; i++ {
				switch r.IntN(6) {
				case 0, 1:
					ops = append(ops, inv())
				case 2, 3:
					ops = append(ops, IndexOp{Kind: "addLabels", Name: pick(r, append(names, "late")...), Key: r.IntN(nk), Labels: []string{pick(r, labels...)}})
				case 4:
					ops = append(ops, IndexOp{Kind: "addCache", Cache: len(ix.Caches) - 1})
				default:
					ops = append(ops, IndexOp{Kind: "write", Cache: r.IntN(len(ix.Caches) - 1), Key: r.IntN(nk)})
				}
			}

			ix.Clients = append(ix.Clients, ops)
		}

		sc.Sched = genSched(r, 40+nc*30)

		if chance(r, 0.6) {
			// end with a fault-free sweep over all labels: nothing that was ever labelled may be left
			// (keys rewritten by a write operation are exempt)
			ix.Sweep = labels
		}
	}

	return sc
}

type ixDeleter struct {
	r    *ixRun
	idx  int
	st   *trStore
	name string
}

type ixDelCall struct {
	seq     uint64
	cache   int
	key     string
	removed bool
	err     error
	failed  bool
}

// ixDecoy is a cache of the caller that was never handed to the index.
type ixDecoy struct{ r *ixRun }

func (d *ixDecoy) Delete(_ context.Context, key []byte) error {
	d.r.e.out.violate("C15.R2", "unregistered-cache-deleted", "Delete(%q) was called on a cache that was never registered with the index (the caller appended it to its own slice after NewInvalidationIndex(slice...) returned)", key)

	return nil
}

// callerAppends: the caller goes on using the slice it spread into NewInvalidationIndex: it derives a longer list
// from it (tmp := append(all, more...)) after the set-up and after every AddCache, each time starting from the slice
// as it was - whose spare capacity is where an index that kept the slice would have put the caches added since.
func (r *ixRun) callerAppends() {
	if !r.sc.CtorSpare || len(r.ctor) == 0 {
		return
	}

	r.appends++

	tmp := r.ctor
	for i := 0; i < r.appends && len(tmp) < cap(tmp); i++ {
		tmp = append(tmp, &ixDecoy{r: r})
	}

	r.e.out.fault("caller_appends_to_ctor_slice")
}

func (d *ixDeleter) Delete(ctx context.Context, key []byte) error {
	zs.Yield("deleter.Delete")

	r := d.r
	ord := r.nDel
	r.nDel++
	call := &ixDelCall{seq: r.e.s.NextSeq(), cache: d.idx, key: string(key)}
	r.dels = append(r.dels, call)

	if ord == r.failAt {
		call.failed = true
		call.err = ErrTok{K: string(key), ID: fmt.Sprintf("delete#%d", ord)}
		r.e.out.fault("delete_err")
		r.e.logf("deleter %d Delete(%q) -> injected %v", d.idx, key, call.err)

		return call.err
	}

	before := d.st.length()
	call.err = d.st.del.Delete(ctx, key)
	call.removed = d.st.length() == before-1
	r.e.logf("deleter %d (%s) Delete(%q) -> %v removed=%v", d.idx, d.name, key, call.err, call.removed)

	return call.err
}

type ixRec struct {
	op       *IndexOp
	client   int
	inv, ret uint64
	n        int
	err      error
	panicV   interface{}
	delFrom  int // index into dels at invocation
	delTo    int
}

type ixRun struct {
	e       *env
	sc      *IndexScenario
	ix      *cache.InvalidationIndex
	stores  []*trStore
	dels    []*ixDelCall
	nDel    int
	failAt  int
	recs    []*ixRec
	ctor    []cache.Deleter // the caller's own slice that was spread into NewInvalidationIndex
	appends int

	// reference model: cache name -> label -> keys (multiset), maintained for sequential runs
	labels map[string]map[string][]string
	added  []bool
}

func runIndex(e *env) {
	sc := e.sc.TR.Index
	out := e.out
	r := &ixRun{e: e, sc: sc, failAt: sc.FailAt, labels: map[string]map[string][]string{}, added: make([]bool, len(sc.Caches))}
	var ctor []cache.Deleter

	if sc.CtorSpare {
		ctor = make([]cache.Deleter, 0, len(sc.Caches)+8)
	}

	for i, c := range sc.Caches {
		st := newTRStore(e, c.Backend, true)

		for _, k := range c.Keys {
			_ = st.write(context.Background(), []byte(sc.Keys[k]), 2)
		}

		r.stores = append(r.stores, st)

		if !c.Late && sc.CtorDefault && c.Name == "default" {
			ctor = append(ctor, &ixDeleter{r: r, idx: i, st: st, name: c.Name})
			r.added[i] = true
		}
	}

	r.ix = cache.NewInvalidationIndex(ctor...)
	r.ctor = ctor

	for i, c := range sc.Caches {
		if !c.Late && !r.added[i] {
			r.ix.AddCache(c.Name, &ixDeleter{r: r, idx: i, st: r.stores[i], name: c.Name})
			r.added[i] = true
		}
	}

	for i := range sc.Setup {
		r.exec(-1, &sc.Setup[i])
	}

	r.callerAppends()

	e.setup = false
	sequential := len(sc.Clients) == 1

	for ci := range sc.Clients {
		ci := ci

		e.s.Spawn(fmt.Sprintf("c%d", ci), func() {
			for oi := range sc.Clients[ci] {
				zs.Yield("op")

				rec := r.exec(ci, &sc.Clients[ci][oi])
				if sequential && rec != nil && rec.op.Kind == "invalidate" {
					r.checkInvalidate(rec)

					if rec.err != nil && sc.Retry && rec.panicV == nil {
						r.failAt = -1

						if sc.RetryEach {
							ls := dedupStrings(rec.op.Labels)
							for i := range ls {
								one := IndexOp{Kind: "invalidate", Labels: []string{ls[(i+sc.RetryRot)%len(ls)]}}
								r.checkInvalidate(r.exec(ci, &one))
								e.out.probe("retry_label_by_label")
							}

							continue
						}

						retry := *rec.op
						rr := r.exec(ci, &retry)
						r.checkRetry(rec, rr)
					}
				}
			}
		})
	}

	if !e.runAll("C15.STUCK") {
		return
	}

	e.checkPanics()

	if !sequential && len(sc.Sweep) == 0 {
		r.checkConcurrent()
	}

	if len(sc.Sweep) > 0 && len(out.Violations) == 0 {
		r.failAt = -1
		sw := &IndexOp{Kind: "invalidate", Labels: sc.Sweep}

		var rec *ixRec

		e.s.Spawn("sweep", func() { rec = r.exec(99, sw) })

		if !e.runAll("C15.STUCK") {
			return
		}

		e.checkPanics()

		if rec != nil && rec.panicV == nil {
			if rec.err != nil {
				out.violate("C15.R5", "sweep-failed", "fault-free InvalidateByLabels(%v) after the clients finished returned %v", sc.Sweep, rec.err)
			}

			// A key written back by a client after it was deleted is only obliged to be gone if a label was
			// attached to it after the last Delete call it received before the sweep: that association cannot
			// have been consumed by an earlier call, because consuming it means calling Delete on every cache
			// of the name.
			rewritten := map[string]bool{}
			lastDel := map[string]uint64{}

			for _, w := range r.recs {
				if w.op.Kind == "write" {
					rewritten[fmt.Sprintf("%d/%s", w.op.Cache, sc.Keys[w.op.Key])] = true
				}
			}

			for _, d := range r.dels[:rec.delFrom] {
				id := fmt.Sprintf("%d/%s", d.cache, d.key)
				if d.seq > lastDel[id] {
					lastDel[id] = d.seq
				}
			}

			labelledAfter := func(name, k string, after uint64) bool {
				for _, al := range r.recs {
					if al.op.Kind != "addLabels" || al.op.Name != name || sc.Keys[al.op.Key] != k || al.inv <= after {
						continue
					}

					for _, l := range al.op.Labels {
						for _, sl := range sc.Sweep {
							if l == sl {
								return true
							}
						}
					}
				}

				return false
			}

			for name, keys := range r.labelled(sc.Sweep) {
				for i, c := range sc.Caches {
					if c.Name != name || !r.added[i] || c.Late {
						continue
					}

					for k := range keys {
						id := fmt.Sprintf("%d/%s", i, k)
						if rewritten[id] && !labelledAfter(name, k, lastDel[id]) {
							continue
						}

						if rewritten[id] {
							out.probe("sweep_judged_rewritten_and_relabelled_key")
						}

						if r.present(i, k) {
							out.violate("C15.R5", "key-fell-out-of-index-concurrent", "key %q was labelled under %q after the last Delete call it received (concurrently with other InvalidateByLabels calls); a later fault-free InvalidateByLabels(%v) returned nil but the key is still in cache #%d: the association was lost", k, name, sc.Sweep, i)
						}
					}
				}
			}

			out.probe("sweep_after_concurrent_failure")
		}
	}

	out.NonTrivial = len(r.recs) > 0
	out.Outcome = fmt.Sprintf("clients=%d dels=%d fail=%d", len(sc.Clients), len(r.dels), sc.FailAt)
}

func (r *ixRun) exec(ci int, op *IndexOp) *ixRec {
	e := r.e
	rec := &ixRec{op: op, client: ci, delFrom: len(r.dels)}

	switch op.Kind {
	case "addLabels":
		kb := []byte(r.sc.Keys[op.Key])
		rec.inv = e.s.NextSeq()

		if r.sc.CtorDefault && op.Name == "default" {
			r.ix.AddInvalidationLabels(kb, op.Labels...)
		} else {
			r.ix.AddLabels(op.Name, kb, op.Labels...)
		}

		rec.ret = e.s.NextSeq()

		if op.Mutate {
			for i := range kb {
				kb[i] = '#'
			}

			e.out.fault("mutate_key_after_return")
		}

		if r.labels[op.Name] == nil {
			r.labels[op.Name] = map[string][]string{}
		}

		for _, l := range op.Labels {
			r.labels[op.Name][l] = append(r.labels[op.Name][l], r.sc.Keys[op.Key])
		}

		e.logf("AddLabels(%q, %q, %v)", op.Name, r.sc.Keys[op.Key], op.Labels)
	case "addCache":
		c := r.sc.Caches[op.Cache]
		rec.inv = e.s.NextSeq()
		r.ix.AddCache(c.Name, &ixDeleter{r: r, idx: op.Cache, st: r.stores[op.Cache], name: c.Name})
		rec.ret = e.s.NextSeq()
		r.added[op.Cache] = true
		e.logf("AddCache(%q, #%d)", c.Name, op.Cache)
		r.callerAppends()
	case "write":
		rec.inv = e.s.NextSeq()
		_ = r.stores[op.Cache].write(context.Background(), []byte(r.sc.Keys[op.Key]), 3)
		rec.ret = e.s.NextSeq()
		e.logf("cache #%d Write(%q)", op.Cache, r.sc.Keys[op.Key])
	case "invalidate":
		rec.inv = e.s.NextSeq()
		e.logf("invoke InvalidateByLabels(%v)", op.Labels)

		func() {
			defer func() {
				if p := recover(); p != nil {
					if zs.IsKilled(p) {
						panic(p)
					}

					rec.panicV = p
					rec.err = fmt.Errorf("panic: %v", p)
					e.out.violate("C15.R4", "panic "+stripDigits(fmt.Sprint(p)), "InvalidateByLabels(%v) panicked: %v", op.Labels, p)
				}
			}()

			ctx := context.Background()

			if op.CtxDone {
				c, cancel := context.WithCancel(ctx)
				cancel()

				ctx = c

				e.out.fault("ctx_cancelled_before_call")
			}

			rec.n, rec.err = r.ix.InvalidateByLabels(ctx, op.Labels...)
		}()

		rec.ret = e.s.NextSeq()
		e.logf("return InvalidateByLabels(%v) -> %d, %v", op.Labels, rec.n, rec.err)
	}

	rec.delTo = len(r.dels)
	r.recs = append(r.recs, rec)

	return rec
}

func (r *ixRun) present(cacheIdx int, key string) bool {
	_, ok := r.stores[cacheIdx].entries()[key]

	return ok
}

// labelled returns, per cache name, the set of keys carrying any of the labels (reference model).
func (r *ixRun) labelled(ls []string) map[string]map[string]bool {
	out := map[string]map[string]bool{}

	for name, byLabel := range r.labels {
		for _, l := range ls {
			for _, k := range byLabel[l] {
				if out[name] == nil {
					out[name] = map[string]bool{}
				}

				out[name][k] = true
			}
		}
	}

	return out
}

// checkInvalidate applies C15.R1-R4 to one sequential InvalidateByLabels call.
func (r *ixRun) checkInvalidate(rec *ixRec) {
	out := r.e.out
	lab := r.labelled(rec.op.Labels)
	calls := r.dels[rec.delFrom:rec.delTo]

	removed := 0
	touched := map[string]bool{} // "cacheIdx/key"

	var injected error

	for _, c := range calls {
		if c.removed {
			removed++
		}

		if c.failed {
			injected = c.err
		}

		touched[fmt.Sprintf("%d/%s", c.cache, c.key)] = true

		name := r.sc.Caches[c.cache].Name
		if !lab[name][c.key] {
			out.violate("C15.R2", "unlabelled-key-deleted", "InvalidateByLabels(%v) called Delete(%q) on a cache of %q although the key carries none of those labels there", rec.op.Labels, c.key, name)
		}
	}

	if rec.panicV != nil {
		return
	}

	if injected != nil {
		out.probe("invalidate_with_deleter_failure")

		if !errors.Is(rec.err, injected) {
			out.violate("C15.R4", "error-not-returned", "a deleter failed with %v but InvalidateByLabels returned (%d, %v)", injected, rec.n, rec.err)
		}
	} else {
		if rec.err != nil {
			out.violate("C15.R1", "unexpected-error", "InvalidateByLabels(%v) returned %v without any deleter failing", rec.op.Labels, rec.err)

			return
		}

		// R1: every labelled key is absent from all caches registered under its name.
		names := make([]string, 0, len(lab))
		for n := range lab {
			names = append(names, n)
		}

		sort.Strings(names)

		for _, name := range names {
			for i, c := range r.sc.Caches {
				if c.Name != name || !r.added[i] {
					continue
				}

				for k := range lab[name] {
					if r.present(i, k) {
						out.violate("C15.R1", "labelled-key-survived", "after InvalidateByLabels(%v) = (%d, nil) key %q (labelled under %q) is still present in cache #%d", rec.op.Labels, rec.n, k, name, i)
					}
				}
			}
		}

		// the reference index forgets the invalidated labels
		for _, byLabel := range r.labels {
			for _, l := range rec.op.Labels {
				delete(byLabel, l)
			}
		}

		out.probe("invalidate_ok")
	}

	// R3: the count equals the number of entries really removed.
	if rec.n != removed {
		out.violate("C15.R3", "count", "InvalidateByLabels(%v) returned count %d but %d entries were really removed (%d Delete calls)", rec.op.Labels, rec.n, removed, len(calls))
	}
}

func dedupStrings(xs []string) []string {
	var out []string

	seen := map[string]bool{}

	for _, x := range xs {
		if !seen[x] {
			seen[x] = true

			out = append(out, x)
		}
	}

	return out
}

// checkRetry is C15.R5: after the fault-free retry every key that carried a label in L is gone.
func (r *ixRun) checkRetry(first, retry *ixRec) {
	out := r.e.out

	if retry.panicV != nil {
		return
	}

	if retry.err != nil {
		out.violate("C15.R5", "retry-failed", "fault-free retry of InvalidateByLabels(%v) returned %v", first.op.Labels, retry.err)

		return
	}

	out.probe("retry_after_failure")

	lab := r.labelled(first.op.Labels)

	for name, keys := range lab {
		for i, c := range r.sc.Caches {
			if c.Name != name || !r.added[i] {
				continue
			}

			for k := range keys {
				if r.present(i, k) {
					out.violate("C15.R5", "key-fell-out-of-index", "deleter failure, then fault-free retry of InvalidateByLabels(%v): key %q (labelled under %q) is still present in cache #%d - it was dropped from the index without being deleted", first.op.Labels, k, name, i)
				}
			}
		}
	}

	removed := 0
	for _, c := range r.dels[retry.delFrom:retry.delTo] {
		if c.removed {
			removed++
		}
	}

	if retry.n != removed {
		out.violate("C15.R3", "count", "retry of InvalidateByLabels(%v) returned count %d but %d entries were really removed", first.op.Labels, retry.n, removed)
	}
}

// checkConcurrent: rules at quiescence for labels registered before the call was invoked.
func (r *ixRun) checkConcurrent() {
	out := r.e.out

	for _, inv := range r.recs {
		if inv.op.Kind != "invalidate" || inv.panicV != nil || inv.err != nil {
			continue
		}

		out.probe("concurrent_invalidate")

		// keys labelled (completed AddLabels) before this call was invoked, and not labelled again /
		// rewritten afterwards
		for _, al := range r.recs {
			if al.op.Kind != "addLabels" || al.ret > inv.inv {
				continue
			}

			hit := false

			for _, l := range al.op.Labels {
				for _, x := range inv.op.Labels {
					if l == x {
						hit = true
					}
				}
			}

			if !hit {
				continue
			}

			// an earlier or overlapping invalidate of the same label may have consumed the association: the key
			// may then have been written back afterwards without a label
			consumed, failedOverlap := false, false

			for _, o := range r.recs {
				if o != inv && o.op.Kind == "invalidate" && o.inv < inv.ret && o.ret > al.inv {
					consumed = true

					if o.err != nil && o.ret > inv.inv {
						for _, l := range al.op.Labels {
							for _, x := range o.op.Labels {
								if l == x {
									failedOverlap = true
								}
							}
						}
					}
				}
			}

			key := r.sc.Keys[al.op.Key]

			for i, c := range r.sc.Caches {
				if c.Name != al.op.Name || c.Late {
					continue
				}

				// was the key (re)written in this cache after the invalidate started / after it was labelled?
				rewritten, rewrittenSinceLabel := false, false

				for _, w := range r.recs {
					if w.op.Kind == "write" && w.op.Cache == i && r.sc.Keys[w.op.Key] == key {
						if w.ret > inv.inv {
							rewritten = true
						}

						if w.ret > al.inv {
							rewrittenSinceLabel = true
						}
					}
				}

				if rewritten || (consumed && rewrittenSinceLabel) || !r.present(i, key) {
					continue
				}

				// Nobody wrote the key since it was labelled, the call was invoked after that and returned nil,
				// and the key is still there.
				if failedOverlap {
					out.violate("C15.R1", "labelled-key-survived-overlapping-invalidate-of-the-label-failed", "key %q was labelled %v under %q before InvalidateByLabels(%v) was invoked and the call returned nil, yet the key is still present in cache #%d and was not written since: another InvalidateByLabels call of the label ran at the same time, had taken the key out of the index and failed", key, al.op.Labels, al.op.Name, inv.op.Labels, i)
				} else {
					out.violate("C15.R1", "labelled-key-survived-concurrent", "key %q was labelled %v under %q before InvalidateByLabels(%v) was invoked and the call returned nil, yet the key is still present in cache #%d", key, al.op.Labels, al.op.Name, inv.op.Labels, i)
				}
			}
		}
	}
}

// ---------------------------------------------------------------------------------------
// C17: Invalidator

// InvCall is one Invalidate call of a client.
type InvCall struct {
	SleepNs int64 `json:"sleep_ns,omitempty"` // sleep before the call
	// Ctx: "" background; "cancelled": the caller's context is already cancelled; "cancel_in_cb": it is
	// cancelled while the first callback runs; "deadline": its deadline has passed. The property has no
	// exception for any of them: an accepted call runs every callback.
	Ctx string `json:"ctx,omitempty"`
}

// InvScenario drives an Invalidator.
type InvScenario struct {
	SkipIntervalNs int64   `json:"skip_interval_ns,omitempty"` // 0: default 15s
	Callbacks      int     `json:"callbacks"`
	CallbackSleep  []int64 `json:"callback_sleep,omitempty"` // per callback: simulated time spent inside
	// FirstSlowNs: the very first callback invocation of the run takes that much longer (a cold start): calls
	// that arrive meanwhile queue on the Invalidator for a long time, the later invalidations are quick.
	FirstSlowNs int64 `json:"first_slow_ns,omitempty"`
	// EmptySlice: with no callbacks the Callbacks field is an empty, non-nil slice (what an owner is left with
	// after unregistering its last callback, or after make([]..., 0, n)) instead of nil. Nothing is registered
	// either way.
	EmptySlice bool `json:"empty_slice,omitempty"`
	// Late: callbacks that the application registers while the clients are already calling Invalidate, each
	// one under the Invalidator's own (embedded, exported) mutex: i.Lock(); i.Callbacks = append(...); i.Unlock().
	// LateSleepNs[j] is the pause before the j-th registration. CallbackSleep covers them too.
	Late        int         `json:"late,omitempty"`
	LateSleepNs []int64     `json:"late_sleep_ns,omitempty"`
	Clients     [][]InvCall `json:"clients"`
}

func genC17(r *rand.Rand, _ int, _ string) *Scenario {
	sc := &Scenario{Engine: "tr", TickNs: pick(r, int64(1), 100, 1000), MapSeed: r.Uint64(), JitterSeed: r.Uint64()}
	sc.NoFastPath = chance(r, 0.1)
	iv := &InvScenario{SkipIntervalNs: pick(r, int64(0), 1, 1000, ms, sec, 15*sec, 3600*sec, 3600*sec, 100*365*24*3600*sec, math.MaxInt64), Callbacks: r.IntN(6)}
	sc.TR = &TRScenario{Mode: "invalidator", Inv: iv}

	si := iv.SkipIntervalNs
	if si == 0 {
		si = 15 * sec
	}

	if si > 10*365*24*3600*sec {
		si = 3600 * sec // "once per process" intervals: sleeps and callbacks of hours never reach them
	}

	for i := 0; i < iv.Callbacks; i++ {
		iv.CallbackSleep = append(iv.CallbackSleep, pick(r, int64(0), 0, 1, si/2, si, 2*si))
	}

	if iv.Callbacks == 0 {
		iv.EmptySlice = chance(r, 0.5)
	}

	if chance(r, 0.2) {
		iv.Late = 1 + r.IntN(2)

		for j := 0; j < iv.Late; j++ {
			iv.LateSleepNs = append(iv.LateSleepNs, pick(r, int64(0), 0, 1, si/2, si+1))
			iv.CallbackSleep = append(iv.CallbackSleep, pick(r, int64(0), 0, 1, si/2))
		}
	}

	if chance(r, 0.3) && iv.Callbacks > 0 {
		iv.FirstSlowNs = pick(r, si+si/2, 2*si, 3*si)
	}

	nc := 1 + r.IntN(8)
	if chance(r, 0.5) {
		nc = 1 + r.IntN(3)
	}

	for c := 0; c < nc; c++ {
		var calls []InvCall

		n := 1 + r.IntN(4)
		for i := 0; i < n; i++ {
			calls = append(calls, InvCall{SleepNs: pick(r, int64(0), 0, 1, si-1, si, si+1, si/2, 2*si, 3*si+7),
				Ctx: pick(r, "", "", "", "", "", "cancelled", "cancel_in_cb", "deadline")})
		}

		iv.Clients = append(iv.Clients, calls)
	}

	sc.Sched = genSched(r, 30+nc*20)

	return sc
}

type invRec struct {
	cancel      context.CancelFunc
	client, idx int
	inv, ret    uint64
	invT, retT  int64
	err         error
	cbs         []cbRec
}

type cbRec struct {
	idx         int
	enter, exit uint64
	enterT      int64
	exitT       int64
}

func runInvalidator(e *env) {
	sc := e.sc.TR.Inv
	out := e.out
	e.setup = false

	i := &cache.Invalidator{SkipInterval: dur(sc.SkipIntervalNs)}

	var (
		recs []*invRec
		cur  = map[string]*invRec{} // task id -> call in progress

		firstDone bool
	)

	if sc.Callbacks == 0 && sc.EmptySlice {
		i.Callbacks = make([]func(context.Context), 0, 2)
	}

	mkCB := func(c int) func(context.Context) {
		return func(_ context.Context) {
			rec := cur[e.s.CurID()]
			cb := cbRec{idx: c, enter: e.s.NextSeq(), enterT: time.Now().UnixNano()}
			e.logf("callback %d enter", c)
			zs.Yield("callback")

			if rec != nil && rec.cancel != nil && c == 0 {
				rec.cancel() // the caller gives up while its accepted invalidation is running
				out.fault("ctx_cancelled_during_callback")
			}

			if d := sc.CallbackSleep[c]; d > 0 {
				zs.Sleep(dur(d))
			}

			if sc.FirstSlowNs > 0 && !firstDone {
				firstDone = true

				zs.Sleep(dur(sc.FirstSlowNs))
			}

			cb.exit = e.s.NextSeq()
			cb.exitT = time.Now().UnixNano()

			if rec != nil {
				rec.cbs = append(rec.cbs, cb)
			}
		}
	}

	for c := 0; c < sc.Callbacks; c++ {
		i.Callbacks = append(i.Callbacks, mkCB(c))
	}

	// registrations at run time
	type regRec struct{ start, done uint64 }

	var regs []regRec

	if sc.Late > 0 {
		e.s.Spawn("registrar", func() {
			for j := 0; j < sc.Late; j++ {
				zs.Yield("op")

				if d := sc.LateSleepNs[j]; d > 0 {
					zs.Sleep(dur(d))
				}

				const lbl = "application registers a callback under the Invalidator's own mutex"

				rr := regRec{start: e.s.NextSeq()}

				zs.MuLock("registrar", i)
				*zs.W(&i.Callbacks, lbl) = zs.Append(lbl, i.Callbacks, mkCB(sc.Callbacks+j))
				zs.MuUnlock("registrar", i)

				rr.done = e.s.NextSeq()
				regs = append(regs, rr)

				out.fault("callback_registered_at_run_time")
				e.logf("registered callback %d", sc.Callbacks+j)
			}
		})
	}

	// registered(lo): callbacks whose registration was complete at seq; registered(hi): ... had begun at seq
	regBounds := func(rec *invRec) (lo, hi int) {
		lo, hi = sc.Callbacks, sc.Callbacks

		for _, rr := range regs {
			if rr.done < rec.inv {
				lo++
			}

			if rr.start < rec.ret {
				hi++
			}
		}

		return lo, hi
	}

	for ci := range sc.Clients {
		ci := ci

		e.s.Spawn(fmt.Sprintf("c%d", ci), func() {
			for oi, call := range sc.Clients[ci] {
				zs.Yield("op")

				if call.SleepNs > 0 {
					e.out.fault("clock_jump")
					zs.Sleep(dur(call.SleepNs))
				}

				rec := &invRec{client: ci, idx: oi, inv: e.s.NextSeq(), invT: time.Now().UnixNano()}
				recs = append(recs, rec)
				cur[e.s.CurID()] = rec
				e.logf("invoke c%d.%d Invalidate ctx=%q", ci, oi, call.Ctx)

				ctx := context.Background()

				switch call.Ctx {
				case "cancelled":
					c, cancel := context.WithCancel(ctx)
					cancel()

					ctx = c

					out.fault("ctx_cancelled_before_call")
				case "deadline":
					c, cancel := context.WithDeadline(ctx, time.Now().Add(-time.Second))
					defer cancel()

					ctx = c

					out.fault("ctx_deadline_passed")
				case "cancel_in_cb":
					c, cancel := context.WithCancel(ctx)
					ctx, rec.cancel = c, cancel
				}

				rec.err = i.Invalidate(ctx)

				if rec.cancel != nil {
					rec.cancel()
				}

				rec.ret = e.s.NextSeq()
				rec.retT = time.Now().UnixNano()
				e.logf("return c%d.%d Invalidate -> %v", ci, oi, rec.err)
			}
		})
	}

	if !e.runAll("C17.STUCK") {
		return
	}

	e.checkPanics()

	si := dur(sc.SkipIntervalNs)
	if si == 0 {
		si = 15 * time.Second
	}

	var accepted []*invRec

	for _, rec := range recs {
		lo, hi := regBounds(rec)

		switch {
		case hi == 0:
			if !errors.Is(rec.err, cache.ErrNothingToInvalidate) {
				out.violate("C17.R5", "no-callbacks", "no callbacks registered, Invalidate returned %v instead of ErrNothingToInvalidate", rec.err)
			}
		case lo == 0 && errors.Is(rec.err, cache.ErrNothingToInvalidate):
			// the first registration was in progress during the call: either answer is right
			out.probe("invalidate_during_first_registration")
		case rec.err == nil:
			accepted = append(accepted, rec)

			if min1 := max(lo, 1); len(rec.cbs) < min1 || len(rec.cbs) > hi {
				out.violate("C17.R3", "callbacks-run", "accepted Invalidate ran %d callbacks, %d were registered when it was invoked and %d when it returned", len(rec.cbs), lo, hi)
			}

			for n, cb := range rec.cbs {
				if cb.idx != n {
					out.violate("C17.R3", "callback-order", "accepted Invalidate ran callback %d at position %d (registration order broken or a callback ran twice)", cb.idx, n)

					break
				}

				if cb.enter < rec.inv || cb.exit > rec.ret {
					out.violate("C17.R3", "callback-outside-call", "callback %d ran outside its Invalidate call (not synchronous)", cb.idx)
				}
			}
		default:
			if !errors.Is(rec.err, cache.ErrAlreadyInvalidated) {
				out.violate("C17.R4", "rejected-error", "rejected Invalidate returned %v, expected ErrAlreadyInvalidated", rec.err)
			}

			if len(rec.cbs) != 0 {
				out.violate("C17.R4", "rejected-ran-callbacks", "rejected Invalidate ran %d callbacks", len(rec.cbs))
			}

			out.probe("rejected_call")
		}
	}

	// order accepted calls by their first callback (or invocation)
	start := func(r *invRec) uint64 {
		if len(r.cbs) > 0 {
			return r.cbs[0].enter
		}

		return r.inv
	}

	sort.Slice(accepted, func(a, b int) bool { return start(accepted[a]) < start(accepted[b]) })

	for n := 1; n < len(accepted); n++ {
		a, b := accepted[n-1], accepted[n]
		if len(a.cbs) == 0 || len(b.cbs) == 0 {
			continue
		}

		aEnd := a.cbs[len(a.cbs)-1]
		if b.cbs[0].enter < aEnd.exit {
			out.violate("C17.R1", "overlap", "accepted Invalidate calls c%d.%d and c%d.%d ran their callbacks at the same time", a.client, a.idx, b.client, b.idx)
		}

		// An accepted call stamps lastRun and then starts its first callback; in the current code no
		// yield point lies in between, so the instants at which consecutive accepted calls start
		// running callbacks are >= SkipInterval apart. A slack of 8 scheduler ticks keeps the rule
		// indifferent to harmless refactorings that put a call-out between stamp and callbacks.
		slack := 8 * e.sc.TickNs
		if gap := b.cbs[0].enterT - a.cbs[0].enterT; gap < int64(si)-slack {
			out.violate("C17.R2", "spacing", "accepted Invalidate calls c%d.%d and c%d.%d started running callbacks only %v apart, SkipInterval=%v", a.client, a.idx, b.client, b.idx, time.Duration(gap), si)
		}

		out.probe("two_accepted_calls")
	}

	// R6: a rejection needs a reason. ErrAlreadyInvalidated says that an invalidation ran less than SkipInterval
	// ago: some accepted call must have started before the rejected one returned, and at most SkipInterval
	// (plus the same slack) before the rejected one was invoked.
	if sc.Callbacks+sc.Late > 0 {
		for _, rec := range recs {
			if rec.err == nil || !errors.Is(rec.err, cache.ErrAlreadyInvalidated) {
				continue
			}

			justified := false

			for _, a := range accepted {
				// the accepted call stamped its time somewhere between its invocation (it may have queued on the
				// mutex) and its first callback; the rejected one looked at the clock no earlier than its invocation
				stampHi := a.retT
				if len(a.cbs) > 0 {
					stampHi = a.cbs[0].enterT
				}

				if a.inv < rec.ret && float64(rec.invT-stampHi) < float64(si)+float64(8*e.sc.TickNs) {
					justified = true
				}
			}

			if !justified {
				out.violate("C17.R6", "rejected-without-recent-invalidation", "Invalidate c%d.%d was rejected with ErrAlreadyInvalidated although no accepted call started within SkipInterval=%v before it (accepted calls so far: %d)", rec.client, rec.idx, si, len(accepted))
			}
		}
	}

	for _, a := range recs {
		for _, b := range recs {
			if a != b && a.client != b.client && overlapping(a.inv, a.ret, b.inv, b.ret) {
				out.NonTrivial = true
				out.probe("overlapping_invalidate_calls")
			}
		}
	}

	if len(recs) >= 2 {
		out.NonTrivial = true
	}

	out.Outcome = fmt.Sprintf("calls=%d accepted=%d", len(recs), len(accepted))
}

func stripDigits(s string) string {
	out := make([]byte, 0, len(s))

	for i := 0; i < len(s); i++ {
		if s[i] >= '0' && s[i] <= '9' {
			if len(out) == 0 || out[len(out)-1] != '#' {
				out = append(out, '#')
			}

			continue
		}

		out = append(out, s[i])
	}

	return string(out)
}
