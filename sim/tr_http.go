package sim

import (
	"bytes"
	"context"
	"errors"
	"fmt"
	goscanner "go/scanner"
	"io"
	"math/rand/v2"
	"net/http"
	"net/http/httptest"
	"os"
	"os/exec"
	"reflect"
	"strings"
	textscanner "text/scanner"
	"time"

	"github.com/bool64/cache"
	zs "github.com/bool64/cache/zzverifsim"
)

func init() {
	gens["C14"] = genC14
}

func genC14(r *rand.Rand, run int, tier string) *Scenario {
	if run%1000 == 199 {
		return &Scenario{Engine: "hash", Hash: &HashScenario{ZeroHash: true}}
	}

	if run%50 == 49 {
		return genHashScenario(r)
	}

	if run%7 == 6 {
		// several importers pull from the same Export handler at the same time
		sc := genC14(r, 0, tier)
		sc.TR.HTTPFault, sc.TR.FaultCache = "", ""
		sc.TR.Importers = 2 + r.IntN(2)
		sc.NoFastPath = chance(r, 0.5)
		sc.Sched = genSched(r, 400)

		for i := range sc.TR.Exporter {
			if len(sc.TR.Exporter[i].Entries) > 12 {
				sc.TR.Exporter[i].Entries = sc.TR.Exporter[i].Entries[:12]
			}
		}

		return sc
	}

	sc := &Scenario{Engine: "tr", TickNs: 100, MapSeed: r.Uint64(), JitterSeed: r.Uint64(), Sched: SchedSpec{Kind: "random", Seed: r.Uint64()}}
	tr := &TRScenario{Mode: "http"}
	sc.TR = tr

	names := []string{"users", "orders", "prices", "misc", "extra"}
	if chance(r, 0.3) {
		// cache names are arbitrary strings: ones that need escaping in a URL, in pairs that a
		// wrong escaping would confuse with each other
		names = []string{"eu+us", "eu us", "r&d", "r", "a=b", "a", "ü/x?y#z", "100%25", "100%", "a%20b", "a b"}
	}

	r.Shuffle(len(names), func(i, j int) { names[i], names[j] = names[j], names[i] })

	fam := map[string]string{}
	for _, n := range names {
		fam[n] = pick(r, "sharded", "syncmap", "shardedOf")
	}

	ne := r.IntN(5)
	for i := 0; i < ne; i++ {
		tr.Exporter = append(tr.Exporter, TRCache{Name: names[i], Backend: fam[names[i]], Entries: genEntries(r, pick(r, 0, 1, 3, 10, 40))})
	}

	ni := r.IntN(5)
	off := r.IntN(3)

	for i := 0; i < ni; i++ {
		n := names[(i+off)%len(names)]
		be := fam[n]

		// importer family must be compatible with the exporter's (typed <-> typed)
		if be != "shardedOf" {
			be = pick(r, "sharded", "syncmap")
		}

		c := TRCache{Name: n, Backend: be}
		if chance(r, 0.3) {
			c.Entries = genEntries(r, 1+r.IntN(3)) // pre-existing content
		}

		tr.Importer = append(tr.Importer, c)
	}

	if run%3 == 2 {
		tr.HTTPFault = pick(r, "roundtrip_err", "status_5xx", "truncate_body", "body_read_err", "rewrite_types_hash", "slow_body")

		if len(tr.Importer) > 0 && chance(r, 0.6) {
			tr.FaultCache = tr.Importer[r.IntN(len(tr.Importer))].Name
		}

		tr.FaultAt = r.IntN(1001)
	}

	return sc
}

type simTransport struct {
	e       *env
	handler http.Handler
	tr      *TRScenario
	status  map[string]int
	seen    map[string]bool
}

type failingBody struct {
	r io.Reader
}

func (b failingBody) Close() error { return nil }
func (b failingBody) Read(p []byte) (int, error) {
	return b.r.Read(p)
}

func (t *simTransport) RoundTrip(req *http.Request) (*http.Response, error) {
	name := req.URL.Query().Get("name")
	t.seen[name] = true
	fault := ""

	if t.tr.HTTPFault != "" && (t.tr.FaultCache == "" || t.tr.FaultCache == name) {
		fault = t.tr.HTTPFault
	}

	if fault == "roundtrip_err" {
		t.e.out.fault(fault)

		return nil, errors.New("injected round trip failure")
	}

	if fault == "rewrite_types_hash" {
		q := req.URL.Query()
		q.Set("typesHash", "12345")
		req.URL.RawQuery = q.Encode()
		t.e.out.fault(fault)
	}

	rec := httptest.NewRecorder()
	t.handler.ServeHTTP(rec, req)
	resp := rec.Result()
	t.status[name] = resp.StatusCode

	body, _ := io.ReadAll(resp.Body)

	switch fault {
	case "status_5xx":
		resp.StatusCode = http.StatusBadGateway
		t.status[name] = resp.StatusCode
		t.e.out.fault(fault)
	case "truncate_body":
		if resp.StatusCode == http.StatusOK {
			body = body[:len(body)*t.tr.FaultAt/1000]

			t.e.out.fault(fault)
		}
	case "slow_body":
		// a slow link: every read of the response body takes 4 simulated seconds and delivers at most a quarter
		// of it. Nothing is lost; like a real transport the body stops with the request context's error once that
		// context is cancelled (the library sets no deadline of its own).
		if resp.StatusCode == http.StatusOK {
			resp.Body = io.NopCloser(&slowReader{ctx: req.Context(), b: body, chunk: len(body)/4 + 1})

			t.e.out.fault(fault)

			return resp, nil
		}
	case "body_read_err":
		if resp.StatusCode == http.StatusOK {
			fired := false
			resp.Body = failingBody{r: &faultyReader{r: bytes.NewReader(body), left: len(body) * t.tr.FaultAt / 1000, err: errStream, fired: &fired}}

			t.e.out.fault(fault)

			return resp, nil
		}
	}

	resp.Body = io.NopCloser(bytes.NewReader(body))

	return resp, nil
}

type slowReader struct {
	ctx   context.Context
	b     []byte
	chunk int
}

func (r *slowReader) Read(p []byte) (int, error) {
	if err := r.ctx.Err(); err != nil {
		return 0, err
	}

	if len(r.b) == 0 {
		return 0, io.EOF
	}

	time.Sleep(4 * time.Second) // bubble clock

	if err := r.ctx.Err(); err != nil {
		return 0, err
	}

	n := len(p)
	if n > r.chunk {
		n = r.chunk
	}

	if n > len(r.b) {
		n = len(r.b)
	}

	copy(p, r.b[:n])
	r.b = r.b[n:]

	return n, nil
}

// yieldingRW is the http.ResponseWriter handed to the Export handler in concurrent runs: every
// Write is a yield point, so two requests served by one handler can interleave between the
// gob messages of a dump.
type yieldingRW struct {
	rec *httptest.ResponseRecorder
}

func (w yieldingRW) Header() http.Header { return w.rec.Header() }
func (w yieldingRW) WriteHeader(c int)   { w.rec.WriteHeader(c) }
func (w yieldingRW) Write(p []byte) (int, error) {
	zs.Yield("rw.Write")

	return w.rec.Write(p)
}

// runHTTPConcurrent: N importers with the same cache names import from one Export handler at
// the same time; each must end up with exactly the exporter's entries.
func runHTTPConcurrent(e *env) {
	tr := e.sc.TR
	out := e.out
	e.setup = false

	exp := &cache.HTTPTransfer{}
	if tr.Logger {
		exp.Logger = shapeLogger(quietLogger{}, tr.LogMask)
	}

	expBefore := map[string]map[string]trEnt{}

	for _, c := range tr.Exporter {
		st := newTRStore(e, c.Backend, true)
		st.fill(c.Entries)
		exp.AddCache(c.Name, st.wdr)
		expBefore[c.Name] = st.entries()
	}

	handler := exp.Export()

	type importer struct {
		tr     *cache.HTTPTransfer
		stores map[string]*trStore
	}

	var imps []*importer

	for n := 0; n < tr.Importers; n++ {
		im := &importer{tr: &cache.HTTPTransfer{}, stores: map[string]*trStore{}}
		if tr.Logger {
			im.tr.Logger = shapeLogger(quietLogger{}, tr.LogMask)
		}

		for _, c := range tr.Importer {
			st := newTRStore(e, c.Backend, true)
			im.tr.AddCache(c.Name, st.wdr)
			im.stores[c.Name] = st
		}

		im.tr.Transport = roundTripFunc(func(req *http.Request) (*http.Response, error) {
			zs.Yield("http.request")

			rec := httptest.NewRecorder()
			handler.ServeHTTP(yieldingRW{rec: rec}, req)

			return rec.Result(), nil
		})
		imps = append(imps, im)
	}

	for n, im := range imps {
		im := im

		e.s.Spawn(fmt.Sprintf("imp%d", n), func() {
			defer func() {
				if p := recover(); p != nil {
					if zs.IsKilled(p) {
						panic(p)
					}

					out.violate("C14.PANIC", fmt.Sprint(p), "Import panicked: %v", p)
				}
			}()

			if err := im.tr.Import(context.Background(), "http://exporter.test/transfer"); err != nil {
				out.violate("C14.R4", "import-error", "Import returned %v", err)
			}
		})
	}

	if !e.runAll("C14.STUCK") {
		return
	}

	e.checkPanics()

	for n, im := range imps {
		for _, c := range tr.Importer {
			want, known := expBefore[c.Name]
			if !known {
				want = map[string]trEnt{}
			}

			if d := sameEntries(want, im.stores[c.Name].entries()); d != "" {
				out.violate("C14.R1", fmt.Sprintf("%s<-%s concurrent-import-differs", c.Backend, backendOf(tr.Exporter, c.Name)), "importer %d of %d importing concurrently from one Export handler, cache %q (%d exporter entries): %s", n, len(imps), c.Name, len(want), d)
			}
		}
	}

	out.probe("concurrent_imports_from_one_handler")
	out.NonTrivial = len(tr.Importer) > 0
	out.Outcome = fmt.Sprintf("conc-import imps=%d caches=%d", len(imps), len(tr.Importer))
}

type roundTripFunc func(req *http.Request) (*http.Response, error)

func (f roundTripFunc) RoundTrip(req *http.Request) (*http.Response, error) { return f(req) }

func runHTTP(e *env) {
	tr := e.sc.TR
	out := e.out

	if tr.Importers > 1 {
		runHTTPConcurrent(e)

		return
	}

	exp := &cache.HTTPTransfer{}
	imp := &cache.HTTPTransfer{}

	if tr.Logger {
		exp.Logger = shapeLogger(quietLogger{}, tr.LogMask)
		imp.Logger = shapeLogger(quietLogger{}, tr.LogMask)
	}
	expStores := map[string]*trStore{}
	impStores := map[string]*trStore{}
	expBefore := map[string]map[string]trEnt{}
	impBefore := map[string]map[string]trEnt{}

	for _, c := range tr.Exporter {
		st := newTRStore(e, c.Backend, true)
		st.fill(c.Entries)
		exp.AddCache(c.Name, st.wdr)
		expStores[c.Name] = st
		expBefore[c.Name] = st.entries()
	}

	for _, c := range tr.Importer {
		st := newTRStore(e, c.Backend, true)
		st.fill(c.Entries)
		imp.AddCache(c.Name, st.wdr)
		impStores[c.Name] = st
		impBefore[c.Name] = st.entries()
	}

	st := &simTransport{e: e, handler: exp.Export(), tr: tr, status: map[string]int{}, seen: map[string]bool{}}
	imp.Transport = st

	var err error

	func() {
		defer func() {
			if p := recover(); p != nil {
				out.violate("C14.PANIC", fmt.Sprint(p), "Import panicked: %v", p)
			}
		}()

		err = imp.Import(context.Background(), "http://exporter.test/debug/transfer-cache")
	}()

	if err != nil {
		out.violate("C14.R4", "import-error", "Import returned %v", err)
	}

	total := 0

	for _, c := range tr.Importer {
		name := c.Name
		got := impStores[name].entries()
		_, known := expStores[name]
		// (a slow body is not a fault of the data: everything must arrive)
		faultHere := tr.HTTPFault != "" && tr.HTTPFault != "slow_body" && (tr.FaultCache == "" || tr.FaultCache == name)
		class := fmt.Sprintf("%s<-%s", c.Backend, backendOf(tr.Exporter, name))
		total += len(expBefore[name])

		if !st.seen[name] {
			out.violate("C14.R1", class+" cache-not-requested", "Import never requested cache %q (a failure of another cache must not abort the import)", name)

			continue
		}

		switch {
		case !known:
			out.probe("importer_cache_unknown_to_exporter")

			if st.status[name] == http.StatusOK {
				out.violate("C14.R3", class+" unknown-name-accepted", "exporter answered 200 for unknown cache %q", name)
			}

			if d := sameEntries(impBefore[name], got); d != "" {
				out.violate("C14.R3", class+" imported-despite-unknown-name", "cache %q is unknown to the exporter but the importer cache changed: %s", name, d)
			}
		case faultHere && (tr.HTTPFault == "rewrite_types_hash" || tr.HTTPFault == "roundtrip_err" || tr.HTTPFault == "status_5xx"):
			if tr.HTTPFault == "rewrite_types_hash" && st.status[name] == http.StatusOK {
				out.violate("C14.R3", class+" types-hash-mismatch-accepted", "exporter answered 200 although the importer's types hash differs")
			}

			if d := sameEntries(impBefore[name], got); d != "" {
				out.violate("C14.R3", class+" imported-despite-"+tr.HTTPFault, "nothing may be imported into %q (%s) but the importer cache changed: %s", name, tr.HTTPFault, d)
			}
		case faultHere:
			// body faults: every entry is either what the importer already had or an intact
			// entry of the exporter
			for k, g := range got {
				okPrev, okExp := false, false

				if w, ok := impBefore[name][k]; ok && reflect.DeepEqual(normVal(w.val), normVal(g.val)) && w.exp == g.exp {
					okPrev = true
				}

				if w, ok := expBefore[name][k]; ok && reflect.DeepEqual(normVal(w.val), normVal(g.val)) && w.exp == g.exp {
					okExp = true
				}

				if !okPrev && !okExp {
					out.violate("C14.R4", class+" mixed-up-record-after-body-fault", "%s at %d/1000 of cache %q: importer holds (%q, %#v, %v) which is neither its previous entry nor an intact exporter entry", tr.HTTPFault, tr.FaultAt, name, k, g.val, time.Unix(0, g.exp).UTC())

					break
				}
			}

			for k := range impBefore[name] {
				if _, ok := got[k]; !ok {
					out.violate("C14.R4", class+" entry-lost-after-body-fault", "%s: importer entry %q disappeared", tr.HTTPFault, k)
				}
			}
		default:
			want := map[string]trEnt{}
			for k, v := range impBefore[name] {
				want[k] = v
			}

			for k, v := range expBefore[name] {
				want[k] = v
			}

			if d := sameEntries(want, got); d != "" {
				out.violate("C14.R1", class+" import-differs", "cache %q (%d exporter entries): %s", name, len(expBefore[name]), d)
			}

			if len(expBefore[name]) > 0 {
				out.probe("cache_imported")
			}
		}
	}

	// R2: exporter caches unchanged; importer caches with other names were handled above
	// (unknown to the exporter => unchanged).
	for name, stx := range expStores {
		if d := sameEntries(expBefore[name], stx.entries()); d != "" {
			out.violate("C14.R2", "exporter-changed", "exporter cache %q changed during export: %s", name, d)
		}
	}

	out.NonTrivial = len(tr.Importer) > 0
	out.Outcome = fmt.Sprintf("exp=%d imp=%d fault=%s", len(tr.Exporter), len(tr.Importer), tr.HTTPFault)
}

func backendOf(cs []TRCache, name string) string {
	for _, c := range cs {
		if c.Name == name {
			return c.Backend
		}
	}

	return "none"
}

// ---------------------------------------------------------------------------------------
// Auxiliary clause of C14 (plain seeded enumeration, not simulation): the gob types hash is
// the same in every process, independent of registration order and multiplicity, and changes
// when a type is added. Each evaluation is a fresh OS process.

type (
	hp1 struct{ A int }
	hp2 struct{ B string }
	hp3 struct {
		C []hp1
		D map[string]hp2
	}
	hp4 struct{ E *hp3 }
	hp5 struct {
		F float64
		hp1
	}
	hp6 struct{ G [2]int64 }
	hp7 struct{ H *hp7 } // registered by pointer
	hp8 []hp2
	hp9 map[string]*hp1
	hpA int64
)

// values of struct, pointer, slice, map and basic kinds (a type and a pointer to it are never both
// registered: encoding/gob refuses that)
//
// The last two are distinct types of different packages that print the same (reflect.Type.String() is
// qualified by the package name, not the import path): "scanner.Scanner".
var hashPool = []interface{}{hp1{}, hp2{}, hp3{}, hp4{}, hp5{}, hp6{}, &hp7{}, hp8{}, hp9{}, hpA(0), goscanner.Scanner{}, textscanner.Scanner{}}

func typesHashInFreshProcess(order string) (string, error) {
	cmd := exec.Command(os.Args[0], "-test.run", "^TestHashHelper$")
	cmd.Env = append(os.Environ(), "VERIF_HASH_ORDER="+order, "VERIF_PROP=")

	b, err := cmd.CombinedOutput()
	if err != nil {
		return "", fmt.Errorf("%v: %s", err, b)
	}

	for _, ln := range strings.Split(string(b), "\n") {
		if strings.HasPrefix(ln, "TYPESHASH=") {
			return strings.TrimPrefix(ln, "TYPESHASH="), nil
		}
	}

	return "", fmt.Errorf("no hash in output: %s", b)
}

// HashScenario is one auxiliary evaluation: registration orders of one type set plus one
// order of a superset, each evaluated in a fresh process.
type HashScenario struct {
	Orders   []string `json:"orders"`   // permutations / multiplicities of the same member set
	Superset string   `json:"superset"` // the same set plus one more type
	// ZeroHash: instead of the above, a fresh process whose types hash is 0 on both sides (the fingerprint of
	// "nothing registered") exports and imports caches of builtin-typed values: equal hashes, so everything
	// must be imported.
	ZeroHash bool `json:"zero_hash,omitempty"`
}

func genHashScenario(r *rand.Rand) *Scenario {
	k := 1 + r.IntN(len(hashPool)-1)
	perm := r.Perm(len(hashPool))
	members := perm[:k]
	hs := &HashScenario{}

	for i := 0; i < 3; i++ {
		var order []byte

		for _, m := range members {
			order = append(order, byte('0'+m))
			if chance(r, 0.3) {
				order = append(order, byte('0'+m)) // repeated registration
			}
		}

		r.Shuffle(len(order), func(a, b int) { order[a], order[b] = order[b], order[a] })
		hs.Orders = append(hs.Orders, groupRandomly(r, order))
	}

	if chance(r, 0.35) {
		// the process had registered something else (any pool members, possibly some of the set) and called
		// GobTypesHashReset before it registered the set: the fingerprint is that of the set
		var before []byte

		for _, m := range perm[:1+r.IntN(len(hashPool))] {
			if chance(r, 0.5) {
				before = append(before, byte('0'+m))
			}
		}

		pre := "R|"
		if len(before) > 0 {
			pre = groupRandomly(r, before) + "|R|"
		}

		hs.Orders[2] = pre + hs.Orders[2]
	}

	// (Orders[0] never contains a reset)
	sup := []byte(strings.ReplaceAll(hs.Orders[0], "|", ""))
	sup = append(sup, byte('0'+perm[k]))
	r.Shuffle(len(sup), func(a, b int) { sup[a], sup[b] = sup[b], sup[a] })
	hs.Superset = groupRandomly(r, sup)

	return &Scenario{Engine: "hash", Hash: hs, Sched: SchedSpec{Kind: "replay"}}
}

// groupRandomly splits a registration order into variadic GobRegister calls: "013" -> "0|13".
func groupRandomly(r *rand.Rand, order []byte) string {
	var b strings.Builder

	for i, c := range order {
		if i > 0 && chance(r, 0.45) {
			b.WriteByte('|')
		}

		b.WriteByte(c)
	}

	return b.String()
}

// runHash executes a HashScenario outside any bubble (plain processes, no simulation).
func runHash(sc *Scenario, out *RunOut) {
	hs := sc.Hash
	out.Verdict = "aux"

	if hs.ZeroHash {
		cmd := exec.Command(os.Args[0], "-test.run", "^TestZeroHashHelper$")
		cmd.Env = append(os.Environ(), "VERIF_ZERO_HASH=1", "VERIF_PROP=")

		b, err := cmd.CombinedOutput()
		if err != nil {
			out.Internal = fmt.Sprintf("zero-hash helper: %v: %s", err, b)

			return
		}

		res := ""

		for _, ln := range strings.Split(string(b), "\n") {
			if strings.HasPrefix(ln, "ZEROHASH=") {
				res = strings.TrimPrefix(ln, "ZEROHASH=")
			}
		}

		switch {
		case res == "":
			out.Internal = "zero-hash helper printed no result: " + string(b)
		case res != "ok":
			out.violate("C14.H3", "equal-zero-hashes-refused", "exporter and importer both have types hash 0 (nothing registered) and the caches hold builtin values: %s", res)
		}

		out.probe("zero_types_hash_transfer")
		out.Outcome = "hash-zero"

		return
	}

	var first string

	for i, o := range hs.Orders {
		h, err := typesHashInFreshProcess(o)
		if err != nil {
			out.Internal = err.Error()

			return
		}

		if i == 0 {
			first = h
		} else if h != first && strings.Contains(o, "R") {
			out.violate("C14.H1", "hash-after-reset-is-not-that-of-the-registered-set", "registration order %q gives types hash %s; a process that registers the same type set after GobTypesHashReset (%q, R = reset) gives %s", hs.Orders[0], first, o, h)
		} else if h != first {
			out.violate("C14.H1", "hash-depends-on-order-or-multiplicity", "registration order %q gives types hash %s, order %q of the same type set gives %s", hs.Orders[0], first, o, h)
		}
	}

	h, err := typesHashInFreshProcess(hs.Superset)
	if err != nil {
		out.Internal = err.Error()

		return
	}

	if h == first {
		out.violate("C14.H2", "hash-unchanged-after-adding-type", "type set %q and its superset %q have the same types hash %s", hs.Orders[0], hs.Superset, h)
	}

	out.probe("types_hash_fresh_process_evaluations")
	out.Probes["types_hash_fresh_process_evaluations"] += len(hs.Orders)
	out.Outcome = "hash-aux"
}
