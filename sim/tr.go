package sim

import (
	"bytes"
	"context"
	"errors"
	"fmt"
	"io"
	"math/rand/v2"
	"reflect"
	"sort"
	"strings"
	"testing/iotest"
	"time"

	"github.com/bool64/cache"
	zs "github.com/bool64/cache/zzverifsim"
)

// Value types transferred in dumps (registered once per process).

// GVInner is a nested value.
type GVInner struct {
	A int
	B []string
}

// GV is the typed value of ShardedMapOf[GV] and one of the interface values.
type GV struct {
	S string
	N int
	M map[string]int
	P *GVInner
	F float64
}

// GW is a second registered struct type.
type GW struct {
	X, Y int64
	T    time.Time
}

func init() {
	cache.GobRegister(GV{}, GW{}, &GVInner{}, Tok{})
}

// TREntry is one cache entry of a transfer scenario.
type TREntry struct {
	Key   []byte `json:"key"`
	Val   int    `json:"val"`              // index into the value alphabet
	TTLNs int64  `json:"ttl_ns,omitempty"` // 0: no explicit TTL (never expires with UnlimitedTTL config)
}

// TRCache is a named cache of an HTTP transfer scenario.
type TRCache struct {
	Name    string    `json:"name"`
	Backend string    `json:"backend"`
	Entries []TREntry `json:"entries,omitempty"`
}

// TRScenario is the transfer / index engine's part of a scenario.
type TRScenario struct {
	Mode string `json:"mode"` // dump | http | index | invalidator

	// dump
	Chain   []string  `json:"chain,omitempty"` // backend kinds: source, then each hop's target
	Entries []TREntry `json:"entries,omitempty"`
	// stream fault (applied to the first hop): "", truncate, readerr, shortreads
	Fault   string `json:"fault,omitempty"`
	FaultAt int    `json:"fault_at,omitempty"` // byte offset as per-mille of the stream length

	// http
	Exporter []TRCache `json:"exporter,omitempty"`
	Importer []TRCache `json:"importer,omitempty"`
	// HTTPFault: "", roundtrip_err, status_5xx, truncate_body, body_read_err, rewrite_types_hash
	HTTPFault  string `json:"http_fault,omitempty"`
	FaultCache string `json:"fault_cache,omitempty"` // importer cache name the fault applies to ("" = all)
	// Importers > 1: that many importers (same cache names) import concurrently from one Export handler.
	Importers int `json:"importers,omitempty"`
	// Logger / LogMask: HTTPTransfer.Logger on both sides (shape as in shapeLogger; 0 with Logger: full).
	Logger  bool `json:"logger,omitempty"`
	LogMask int  `json:"log_mask,omitempty"`

	// index
	Index *IndexScenario `json:"index,omitempty"`
	// invalidator
	Inv *InvScenario `json:"inv,omitempty"`
}

func valueAlphabet(i int) interface{} {
	switch i % 9 {
	case 0:
		return nil
	case 1:
		return GV{}
	case 2:
		return GV{S: "populated", N: 42, M: map[string]int{"a": 1, "b": 2}, P: &GVInner{A: 7, B: []string{"x", "y"}}, F: 1.5}
	case 3:
		return GV{S: "other", N: -1}
	case 4:
		return GW{X: 1, Y: 2, T: time.Unix(1000, 5).UTC()}
	case 5:
		return GW{}
	case 6:
		return &GVInner{A: 3, B: []string{"p"}}
	case 7:
		return Tok{K: "tok", ID: "v"}
	default:
		return GV{S: "third", M: map[string]int{}, P: &GVInner{}}
	}
}

func typedValue(i int) GV {
	switch v := valueAlphabet(1 + i%3).(type) {
	case GV:
		if i%9 == 8 {
			return GV{S: "third", N: i}
		}

		return v
	}

	return GV{}
}

// trStore abstracts a transferable cache of either family.
type trStore struct {
	kind    string
	wdr     cache.WalkDumpRestorer
	write   func(ctx context.Context, k []byte, valIdx int) error
	read    func(ctx context.Context, k []byte) (interface{}, error)
	entries func() map[string]trEnt
	dump    func(w io.Writer) (int, error)
	restore func(r io.Reader) (int, error)
	stop    func()
	del     cache.Deleter
	length  func() int
}

type trEnt struct {
	val interface{}
	exp int64
}

func newTRStore(e *env, kind string, unlimited bool) *trStore {
	cfg := cache.Config{Name: "tr", ExpirationJitter: -1, DeleteExpiredJobInterval: farFuture, ItemsCountReportInterval: farFuture}
	if unlimited {
		cfg.TimeToLive = cache.UnlimitedTTL
	}

	st := &trStore{kind: kind}

	switch kind {
	case "syncmap":
		m := cache.NewSyncMap(cfg.Use)
		st.wdr, st.dump, st.restore, st.stop, st.del, st.length = m, m.Dump, m.Restore, m.VerifStop, m, m.Len
		st.write = func(ctx context.Context, k []byte, vi int) error { return m.Write(ctx, k, valueAlphabet(vi)) }
		st.read = func(ctx context.Context, k []byte) (interface{}, error) { return m.Read(ctx, k) }
		st.entries = func() map[string]trEnt {
			out := map[string]trEnt{}
			_, _ = m.Walk(func(en cache.Entry) error {
				out[string(en.Key())] = trEnt{val: en.Value(), exp: expNs(en.ExpireAt())}

				return nil
			})

			return out
		}
	case "shardedOf":
		m := cache.NewShardedMapOf[GV](cfg.Use)
		st.wdr, st.dump, st.restore, st.stop, st.del, st.length = m.WalkDumpRestorer(), m.Dump, m.Restore, m.VerifStop, m, m.Len
		st.write = func(ctx context.Context, k []byte, vi int) error { return m.Write(ctx, k, typedValue(vi)) }
		st.read = func(ctx context.Context, k []byte) (interface{}, error) { return m.Read(ctx, k) }
		st.entries = func() map[string]trEnt {
			out := map[string]trEnt{}
			_, _ = m.Walk(func(en cache.EntryOf[GV]) error {
				out[string(en.Key())] = trEnt{val: en.Value(), exp: expNs(en.ExpireAt())}

				return nil
			})

			return out
		}
	default:
		m := cache.NewShardedMap(cfg.Use)
		st.wdr, st.dump, st.restore, st.stop, st.del, st.length = m, m.Dump, m.Restore, m.VerifStop, m, m.Len
		st.write = func(ctx context.Context, k []byte, vi int) error { return m.Write(ctx, k, valueAlphabet(vi)) }
		st.read = func(ctx context.Context, k []byte) (interface{}, error) { return m.Read(ctx, k) }
		st.entries = func() map[string]trEnt {
			out := map[string]trEnt{}
			_, _ = m.Walk(func(en cache.Entry) error {
				out[string(en.Key())] = trEnt{val: en.Value(), exp: expNs(en.ExpireAt())}

				return nil
			})

			return out
		}
	}

	stopped := false
	stop := st.stop
	st.stop = func() {
		if !stopped {
			stopped = true
			stop()
		}
	}
	e.cleanup = append(e.cleanup, st.stop)

	return st
}

func expNs(t time.Time) int64 {
	return t.UnixNano()
}

func (st *trStore) fill(entries []TREntry) {
	for _, en := range entries {
		ctx := context.Background()
		if en.TTLNs != 0 {
			ctx = cache.WithTTL(ctx, dur(en.TTLNs), false)
		}

		_ = st.write(ctx, append([]byte(nil), en.Key...), en.Val)
	}
}

// sameEntries compares two entry sets; it returns a description of the first difference.
func sameEntries(want, got map[string]trEnt) string {
	keys := make([]string, 0, len(want))
	for k := range want {
		keys = append(keys, k)
	}

	sort.Strings(keys)

	for _, k := range keys {
		g, ok := got[k]
		if !ok {
			return fmt.Sprintf("key %q is missing", k)
		}

		w := want[k]
		if !reflect.DeepEqual(normVal(w.val), normVal(g.val)) {
			return fmt.Sprintf("key %q holds %#v, expected %#v", k, g.val, w.val)
		}

		if w.exp != g.exp {
			return fmt.Sprintf("key %q expires at %v, expected %v", k, time.Unix(0, g.exp).UTC(), time.Unix(0, w.exp).UTC())
		}
	}

	gk := make([]string, 0, len(got))
	for k := range got {
		gk = append(gk, k)
	}

	sort.Strings(gk)

	for _, k := range gk {
		if _, ok := want[k]; !ok {
			return fmt.Sprintf("unexpected key %q (value %#v)", k, got[k].val)
		}
	}

	return ""
}

// normVal maps gob's documented representation changes to one form: empty maps and slices
// are transmitted as absent (nil); pointers are compared by pointee.
func normVal(v interface{}) interface{} {
	switch x := v.(type) {
	case GV:
		if len(x.M) == 0 {
			x.M = nil
		}

		if x.P != nil {
			p := *x.P
			if len(p.B) == 0 {
				p.B = nil
			}

			if p.A == 0 && p.B == nil {
				// gob omits a pointer to a zero struct entirely
				x.P = nil
			} else {
				x.P = &p
			}
		}

		return x
	case *GVInner:
		if x == nil {
			return nil
		}

		p := *x
		if len(p.B) == 0 {
			p.B = nil
		}

		return p
	}

	return v
}

func subsetIntact(src, got map[string]trEnt) string {
	for k, g := range got {
		w, ok := src[k]
		if !ok {
			return fmt.Sprintf("target holds key %q which the source never had (value %#v)", k, g.val)
		}

		if !reflect.DeepEqual(normVal(w.val), normVal(g.val)) || w.exp != g.exp {
			return fmt.Sprintf("target holds a mixed-up record for key %q: (%#v, %v), source has (%#v, %v)", k, g.val, time.Unix(0, g.exp).UTC(), w.val, time.Unix(0, w.exp).UTC())
		}
	}

	return ""
}

// faultyReader fails at a byte offset.
type faultyReader struct {
	r     io.Reader
	left  int
	err   error
	fired *bool
}

func (f *faultyReader) Read(p []byte) (int, error) {
	if f.left <= 0 {
		*f.fired = true

		return 0, f.err
	}

	if len(p) > f.left {
		p = p[:f.left]
	}

	n, err := f.r.Read(p)
	f.left -= n

	return n, err
}

var errStream = errors.New("injected stream failure")

func init() {
	engines["tr"] = runTR
	gens["C13"] = genC13
}

func runTR(e *env) {
	e.setup = true

	switch e.sc.TR.Mode {
	case "dump":
		runDump(e)
	case "http":
		runHTTP(e)
	case "index":
		runIndex(e)
	case "invalidator":
		runInvalidator(e)
	default:
		e.out.Internal = "unknown TR mode"
	}

	if e.sc.Prop == "C09" {
		// label-association rules reported under C09 (key-buffer reuse through AddLabels)
		for i := range e.out.Violations {
			e.out.Violations[i].Rule = strings.Replace(e.out.Violations[i].Rule, "C15.", "C09.R3-", 1)
		}

		if e.out.Faults["mutate_key_after_return"] > 0 {
			e.out.probe("label_key_buffer_rewritten_after_AddLabels")
		}
	}

	for _, f := range e.cleanup {
		f()
	}

	if v := e.s.Run(); v != zs.Quiescent && e.out.Internal == "" && len(e.out.Violations) == 0 {
		e.out.Internal = "janitors did not stop: " + e.s.StuckInfo
	}

	e.s.SettleRoot()
}

func genEntries(r *rand.Rand, n int) []TREntry {
	var out []TREntry

	seen := map[string]bool{}

	for len(out) < n {
		var k []byte

		switch r.IntN(6) {
		case 0:
			k = []byte{}
		case 1:
			k = []byte{byte('a' + r.IntN(26))}
		case 2:
			k = bytes.Repeat([]byte{byte('A' + r.IntN(26))}, 40+r.IntN(300))
		case 3:
			k = []byte{0, byte(r.IntN(256)), 0, 255}
		case 4:
			if chance(r, 0.3) {
				// long keys around the sizes implementations like to treat specially
				k = bytes.Repeat([]byte{byte('a' + r.IntN(26))}, pick(r, 4095, 4096, 4097, 5000, 65535, 65536, 70000))

				break
			}

			fallthrough
		default:
			k = []byte(fmt.Sprintf("key-%d", r.IntN(100000)))
		}

		if seen[string(k)] {
			continue
		}

		seen[string(k)] = true

		en := TREntry{Key: k, Val: r.IntN(9)}

		switch r.IntN(4) {
		case 0: // no expiry (with unlimited config)
		case 1:
			en.TTLNs = -int64(1+r.IntN(1000)) * sec // already expired
		default:
			en.TTLNs = int64(1+r.IntN(100000)) * ms
		}

		out = append(out, en)
	}

	return out
}

func genC13(r *rand.Rand, run int, _ string) *Scenario {
	if run%6 == 5 {
		return genC13Conc(r)
	}

	sc := &Scenario{Engine: "tr", TickNs: 100, MapSeed: r.Uint64(), JitterSeed: r.Uint64(), Sched: SchedSpec{Kind: "random", Seed: r.Uint64()}}
	tr := &TRScenario{Mode: "dump"}
	sc.TR = tr

	if chance(r, 0.3) {
		tr.Chain = []string{"shardedOf", "shardedOf"}
	} else {
		tr.Chain = []string{pick(r, "sharded", "syncmap"), pick(r, "sharded", "syncmap")}
	}

	hops := pick(r, 0, 0, 0, 1, 2, 3)
	for i := 0; i < hops; i++ {
		if tr.Chain[0] == "shardedOf" {
			tr.Chain = append(tr.Chain, "shardedOf")
		} else {
			tr.Chain = append(tr.Chain, pick(r, "sharded", "syncmap"))
		}
	}

	n := pick(r, 0, 1, 2, 3, 5, 8, 20, 60, 150, 300)
	tr.Entries = genEntries(r, n)

	if run%3 == 2 && n > 0 {
		tr.Fault = pick(r, "truncate", "readerr", "shortreads")
		tr.FaultAt = r.IntN(1001)
	}

	return sc
}

func runDump(e *env) {
	tr := e.sc.TR
	out := e.out

	src := newTRStore(e, tr.Chain[0], true)
	src.fill(tr.Entries)

	want := src.entries()
	out.NonTrivial = len(want) >= 1
	cur := src

	for hop := 1; hop < len(tr.Chain); hop++ {
		class := fmt.Sprintf("%s->%s", tr.Chain[hop-1], tr.Chain[hop])

		var buf bytes.Buffer

		n, err := cur.dump(&buf)
		if err != nil || n != len(want) {
			out.violate("C13.R3", class+" dump-count", "Dump of %d entries returned (%d, %v)", len(want), n, err)

			return
		}

		dst := newTRStore(e, tr.Chain[hop], true)

		var rd io.Reader = bytes.NewReader(buf.Bytes())

		fired := false
		faulty := hop == 1 && tr.Fault != ""

		if faulty {
			at := buf.Len() * tr.FaultAt / 1000

			switch tr.Fault {
			case "truncate":
				rd = bytes.NewReader(buf.Bytes()[:at])
				fired = at < buf.Len()
			case "readerr":
				rd = &faultyReader{r: rd, left: at, err: errStream, fired: &fired}
			case "shortreads":
				rd = iotest.OneByteReader(rd)
				faulty = false

				out.fault("short_reads")
			}
		}

		rn, rerr := dst.restore(rd)
		got := dst.entries()

		if faulty {
			if fired {
				out.fault(tr.Fault)
			}

			if d := subsetIntact(want, got); d != "" {
				out.violate("C13.R5", class+" mixed-up-record-after-stream-fault", "stream fault %s at %d/1000: %s", tr.Fault, tr.FaultAt, d)
			}

			if rerr == nil && len(got) != len(want) && fired && tr.Fault == "readerr" {
				out.violate("C13.R5", class+" stream-error-swallowed", "reader failed but Restore returned (%d, nil) with %d of %d entries", rn, len(got), len(want))
			}

			if rn != len(got) && rerr == nil {
				out.violate("C13.R3", class+" restore-count", "Restore returned n=%d, target holds %d entries", rn, len(got))
			}

			return
		}

		if rerr != nil {
			out.violate("C13.R1", class+" restore-failed", "Restore of a complete dump of %d entries failed: %v", len(want), rerr)

			return
		}

		if rn != len(want) {
			out.violate("C13.R3", class+" restore-count", "Restore returned n=%d for a dump of %d entries", rn, len(want))
		}

		if d := sameEntries(want, got); d != "" {
			rule := "C13.R1"
			if hop > 1 {
				rule = "C13.R4"
			}

			out.violate(rule, class+" entries-differ", "after Dump -> Restore (hop %d of chain %v, %d entries): %s", hop, tr.Chain, len(want), d)

			return
		}

		// R2: Read agrees (fresh vs expired, value)
		for _, en := range tr.Entries {
			sv, serr := src.read(context.Background(), en.Key)
			dv, derr := dst.read(context.Background(), en.Key)

			if errKind(serr) != errKind(derr) || (serr == nil && !reflect.DeepEqual(normVal(sv), normVal(dv))) {
				out.violate("C13.R2", class+" read-differs", "Read(%q): source gives (%#v, %v), restored cache gives (%#v, %v)", en.Key, sv, serr, dv, derr)

				break
			}
		}

		if hop > 1 {
			out.probe("relayed_through_second_hop")
		}

		cur = dst
	}

	out.Outcome = fmt.Sprintf("%v n=%d fault=%s", tr.Chain, len(want), tr.Fault)
}
