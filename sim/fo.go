package sim

import (
	"context"
	"errors"
	"fmt"
	"time"

	"github.com/bool64/cache"
	zs "github.com/bool64/cache/zzverifsim"
)

// Tok is the unique value token handed out by the harness. The zero Tok is recognisably
// fabricated.
type Tok struct {
	K  string // key the value was produced for
	ID string // producer: "pre" (pre-loaded) or "b<client>.<op>" (builder of that Get)
}

func (t Tok) String() string { return t.K + "/" + t.ID }

// ErrTok is a unique error token.
type ErrTok struct {
	K  string
	ID string
	// W: the error wraps a well-known sentinel, as the errors of real builders do ("" none, canceled,
	// deadline, notfound, expired): the library must treat it like any other builder error.
	W string
}

func (e ErrTok) Error() string {
	if e.W != "" {
		return "errtok:" + e.K + "/" + e.ID + "(" + e.W + ")"
	}

	return "errtok:" + e.K + "/" + e.ID
}

func (e ErrTok) Unwrap() error {
	switch e.W {
	case "canceled":
		return context.Canceled
	case "deadline":
		return context.DeadlineExceeded
	case "notfound":
		return cache.ErrNotFound
	case "expired":
		return cache.ErrExpired
	}

	return nil
}

// TTLCall is one WithTTL(ctx, ttl, update) call a builder makes.
type TTLCall struct {
	Ns     int64 `json:"ns"`
	Update bool  `json:"update"`
}

// FOConfig mirrors FailoverConfig.
type FOConfig struct {
	SyncUpdate        bool  `json:"sync_update,omitempty"`
	SyncRead          bool  `json:"sync_read,omitempty"`
	FailHard          bool  `json:"fail_hard,omitempty"`
	MaxStalenessNs    int64 `json:"max_staleness_ns,omitempty"`
	FailedUpdateTTLNs int64 `json:"failed_update_ttl_ns,omitempty"` // 0 default (20s), -1 disabled
	UpdateTTLNs       int64 `json:"update_ttl_ns,omitempty"`        // 0 default (1m)
	Logger            bool  `json:"logger,omitempty"`
	LogMask           int   `json:"log_mask,omitempty"` // shape of the logger, see shapeLogger
	Stats             bool  `json:"stats,omitempty"`
	ObserveMutability bool  `json:"observe_mutability,omitempty"`
}

// FOInit is the state of one key before the clients start.
type FOInit struct {
	Key   int    `json:"key"`
	State string `json:"state"`            // absent | fresh | stale (expired AgeNs ago)
	AgeNs int64  `json:"age_ns,omitempty"` // how long ago the entry expired
	// FailAgeNs >= 0: a failure for the key was cached that long ago (-1: none).
	FailAgeNs int64 `json:"fail_age_ns"`
	// NilValue: the cached value is a nil interface (a builder once returned (nil, nil)); only the
	// untyped Failover API can hold one.
	NilValue bool `json:"nil_value,omitempty"`
}

// FOOp is one client operation.
type FOOp struct {
	Kind    string `json:"kind"` // get | sleep
	Key     int    `json:"key,omitempty"`
	SleepNs int64  `json:"sleep_ns,omitempty"`

	HasCtxTTL bool  `json:"has_ctx_ttl,omitempty"`
	CtxTTLNs  int64 `json:"ctx_ttl_ns,omitempty"`
	SkipRead  bool  `json:"skip_read,omitempty"`

	// Builder script, used if this Get invokes its builder.
	BuildFail bool `json:"build_fail,omitempty"`
	// BuildPanic: the builder panics (only when it runs in the caller's own goroutine; a panic in the
	// library's background goroutine would be an unrecovered crash of the user's process).
	BuildPanic   bool  `json:"build_panic,omitempty"`
	BuildSleepNs int64 `json:"build_sleep_ns,omitempty"`
	// BuildEqual: the builder returns a value equal to the pre-loaded one (the source has not changed);
	// only used by oracles that tell writes apart by position, not by value.
	BuildEqual bool `json:"build_equal,omitempty"`
	// BuildErrKind: what the builder's error wraps when it fails (see ErrTok.W).
	BuildErrKind string `json:"build_err_kind,omitempty"`
	// BuildNil: the builder returns a nil interface value with a nil error (untyped APIs only): a legitimate
	// result that is cached like any other; the harness sees it as the token <key>/nil.
	BuildNil bool `json:"build_nil,omitempty"`
	// NestKey > 0: while it runs, the builder calls Get on the same Failover for key NestKey-1 (a different
	// key: building one value from another cached one). The nested Get is recorded like any other.
	NestKey   int       `json:"nest_key,omitempty"`
	BuildTTLs []TTLCall `json:"build_ttls,omitempty"`

	// Caller behaviour after Get returned.
	Cancel    string `json:"cancel,omitempty"`     // "", before (ctx already cancelled), after (cancel after return), deadline (deadline passes later)
	MutateKey string `json:"mutate_key,omitempty"` // "", garbage, key:<i>
	ReuseBuf  bool   `json:"reuse_buf,omitempty"`  // use the client's shared key buffer
	// UseShared: the Get runs under the scenario's shared request context (one TTL cell shared by
	// several goroutines) instead of a context of its own.
	UseShared bool `json:"use_shared,omitempty"`
	// OwnCtx: the Get runs under a context that belongs to its client alone and is reused by all of that
	// client's OwnCtx operations (a request context with one TTL cell, FOScenario.OwnCtxTTLNs): no second
	// goroutine of the application ever sees it, only goroutines the library starts on behalf of the client do.
	OwnCtx bool `json:"own_ctx,omitempty"`
}

// FOFaults is the backend fault plan (ordinals are 0-based positions among wrapper calls).
type FOFaults struct {
	ReadErrAt    []int `json:"read_err_at,omitempty"`
	WriteErrAt   []int `json:"write_err_at,omitempty"`
	RefreshErrAt []int `json:"refresh_err_at,omitempty"` // ordinals among UpdateTTL re-stores
}

// FOScenario is the Failover engine's part of a scenario.
type FOScenario struct {
	API string `json:"api"` // failover | failoverOf
	// WrapBackendErrs: the backend handed to the library is a decorator that wraps every read error
	// (fmt.Errorf("...: %w")), as instrumenting / tracing wrappers do; expired items stay reachable through
	// errors.As only.
	WrapBackendErrs bool `json:"wrap_backend_errs,omitempty"`
	// PlainExpired: the backend handed to the library reports expired entries with the bare ErrExpired
	// sentinel, without the expired item ("may implement ErrWithExpiredItem to enable stale value serving":
	// this one does not). For the frontend such an entry is as good as absent.
	PlainExpired bool `json:"plain_expired,omitempty"`
	// ExpireAllFirst: before the clients start, another part of the application calls ExpireAll on the backend
	// (an invalidation). Entries that had expired before are expired still - since when they were.
	ExpireAllFirst bool `json:"expire_all_first,omitempty"`
	// ValRep: representation of values handed to the untyped API ("" token struct, slice, map, box, ptr).
	ValRep       string   `json:"val_rep,omitempty"`
	Backend      string   `json:"backend"` // sharded | syncmap | shardedOf
	Cfg          FOConfig `json:"cfg"`
	BackendTTLNs int64    `json:"backend_ttl_ns,omitempty"` // 0 default 5m
	// BackendJitter: 0 library default (0.1), -1 disabled.
	BackendJitter float64  `json:"backend_jitter,omitempty"`
	Keys          []string `json:"keys"`
	// KeyBytes, if set, replaces Keys (binary keys, e.g. constructed hash collisions).
	KeyBytes [][]byte `json:"key_bytes,omitempty"`
	Init     []FOInit `json:"init,omitempty"`
	Clients  [][]FOOp `json:"clients"`
	Faults   FOFaults `json:"faults,omitempty"`
	// SharedCtxTTLNs != 0: a request context carrying this TTL is shared by all Gets with UseShared.
	SharedCtxTTLNs int64 `json:"shared_ctx_ttl_ns,omitempty"`
	// OwnCtxTTLNs != 0: TTL of the per-client request contexts (see FOOp.OwnCtx).
	OwnCtxTTLNs int64 `json:"own_ctx_ttl_ns,omitempty"`
	// DefaultBackend: the Failover creates its own backend from BackendConfig (no wrapper seam:
	// backend calls are not observed, backend faults cannot be injected).
	DefaultBackend bool     `json:"default_backend,omitempty"`
	BackendCfg     BEConfig `json:"backend_cfg,omitempty"`
	// Followup makes the root run the C04 re-buildability phase after quiescence.
	Followup bool `json:"followup,omitempty"`
}

// ---------------------------------------------------------------------------------------
// History

type opRec struct {
	client, idx int
	op          *FOOp
	key         string // original key bytes
	inv, ret    uint64
	invNs       int64
	retNs       int64
	done        bool
	val         interface{}
	err         error
	panicked    bool
	callerTTL   int64 // TTL(ctx) observed by the caller after Get returned
	hadCtxTTL   bool
	builds      []*buildRec

	locksAtInvoke []string // per-key build locks held when the Get was invoked (hook observation)
	task          string   // simulator task that issued the Get
	nested        bool     // issued by a builder (for another key)
}

func (o *opRec) id() string { return fmt.Sprintf("c%d.%d", o.client, o.idx) }

type buildRec struct {
	op            *opRec
	key           string
	enter, exit   uint64
	enterNs       int64
	exitNs        int64
	exited        bool
	fail          bool
	tok           Tok
	err           ErrTok
	task          string
	ctxErrEnter   error
	ctxErrExit    error
	causeExit     error // context.Cause at builder exit
	hasDeadline   bool
	doneNil       bool
	doneFired     bool
	markerVisible bool
	background    bool // ran in a task other than the op's client task
}

type beCall struct {
	seq      uint64
	retSeq   uint64
	ns       int64
	kind     string // read | write
	key      string
	ttlNs    int64
	hasTTL   bool
	skipRead bool
	ctxErr   error
	val      interface{}
	err      error
	injected bool
	task     string
	ordinal  int
	expireAt time.Time // for successful writes: ExpireAt reported by the backend afterwards (if looked up)
}

type statRec struct {
	seq   uint64
	name  string
	val   float64
	label string // value of the "name" label
	set   bool
}

type logRec struct {
	seq   uint64
	level string
	msg   string
	task  string
}

type markerKey struct{}

// foBackend abstracts over the three real backends for root-context access.
type foBackend struct {
	plain cache.ReadWriter
	gen   cache.ReadWriterOf[Tok]
	stop  func()
	read  func(ctx context.Context, k []byte) (interface{}, error)
	write func(ctx context.Context, k []byte, v Tok) error
	walk  func(fn func(key []byte, v interface{}, exp time.Time))
	len   func() int
	expAl func(ctx context.Context)
	del   func(ctx context.Context, k []byte) error
}

type foAPI interface {
	Get(ctx context.Context, key []byte, build func(ctx context.Context) (Tok, error)) (interface{}, error)
	KeyLockNames() []string
	Stop()
	ErrorsWrite(ctx context.Context, key []byte, err error)
	ErrorsRead(ctx context.Context, key []byte) (error, error)
	HasErrors() bool
}

type plainAPI struct {
	f   *cache.Failover
	rep string
}

func (a plainAPI) Get(ctx context.Context, key []byte, build func(ctx context.Context) (Tok, error)) (interface{}, error) {
	v, err := a.f.Get(ctx, key, func(ctx context.Context) (interface{}, error) {
		t, err := build(ctx)
		if err != nil {
			return nil, err
		}

		return wrapVal(a.rep, t), nil
	})

	if v == nil && err == nil {
		return nilTok(string(key), nil), nil
	}

	return unwrapVal(v), err
}
func (a plainAPI) KeyLockNames() []string { return a.f.VerifKeyLockNames() }
func (a plainAPI) Stop()                  { a.f.VerifStop() }
func (a plainAPI) HasErrors() bool        { return a.f.Errors != nil }
func (a plainAPI) ErrorsWrite(ctx context.Context, key []byte, err error) {
	_ = a.f.Errors.Write(ctx, key, err)
}

func (a plainAPI) ErrorsRead(ctx context.Context, key []byte) (error, error) {
	v, err := a.f.Errors.Read(ctx, key)
	if err != nil {
		return nil, err
	}

	return v.(error), nil
}

type genAPI struct{ f *cache.FailoverOf[Tok] }

func (a genAPI) Get(ctx context.Context, key []byte, build func(ctx context.Context) (Tok, error)) (interface{}, error) {
	return a.f.Get(ctx, key, build)
}
func (a genAPI) KeyLockNames() []string { return a.f.VerifKeyLockNames() }
func (a genAPI) Stop()                  { a.f.VerifStop() }
func (a genAPI) HasErrors() bool        { return a.f.Errors != nil }
func (a genAPI) ErrorsWrite(ctx context.Context, key []byte, err error) {
	_ = a.f.Errors.Write(ctx, key, err)
}

func (a genAPI) ErrorsRead(ctx context.Context, key []byte) (error, error) {
	return a.f.Errors.Read(ctx, key)
}

// anyAPI: the generic frontend instantiated with V = interface{} over an untyped backend (the only way
// to put FailoverOf in front of SyncMap or ShardedMap): expired items reach it as the non-generic
// ErrWithExpiredItem, values in any representation.
type anyAPI struct {
	f   *cache.FailoverOf[interface{}]
	rep string
}

func (a anyAPI) Get(ctx context.Context, key []byte, build func(ctx context.Context) (Tok, error)) (interface{}, error) {
	v, err := a.f.Get(ctx, key, func(ctx context.Context) (interface{}, error) {
		t, err := build(ctx)
		if err != nil {
			return nil, err
		}

		return wrapVal(a.rep, t), nil
	})

	if v == nil && err == nil {
		return nilTok(string(key), nil), nil
	}

	return unwrapVal(v), err
}
func (a anyAPI) KeyLockNames() []string { return a.f.VerifKeyLockNames() }
func (a anyAPI) Stop()                  { a.f.VerifStop() }
func (a anyAPI) HasErrors() bool        { return a.f.Errors != nil }
func (a anyAPI) ErrorsWrite(ctx context.Context, key []byte, err error) {
	_ = a.f.Errors.Write(ctx, key, err)
}

func (a anyAPI) ErrorsRead(ctx context.Context, key []byte) (error, error) {
	return a.f.Errors.Read(ctx, key)
}

// foRun is the state of one FO run.
type foRun struct {
	e  *env
	sc *FOScenario

	be  foBackend
	api foAPI

	ops    []*opRec
	builds []*buildRec
	calls  []*beCall
	stats  []statRec
	logs   []logRec

	nRead, nWrite, nRefresh int
	openBuilds              map[string][]*buildRec

	updateTTL time.Duration
	failedTTL time.Duration

	daemons []string

	noFaults   bool
	apiStopped bool

	sharedCtx context.Context
	ownCtx    map[int]context.Context
	nestedOps []*FOOp

	sideWrites []sideWrite // values another part of the application stored in the backend directly
}

type sideWrite struct {
	key string
	tok Tok
	seq uint64
}

func (r *foRun) cfgUpdateTTL() time.Duration {
	if r.sc.Cfg.UpdateTTLNs == 0 {
		return time.Minute
	}

	return dur(r.sc.Cfg.UpdateTTLNs)
}

func (r *foRun) cfgFailedTTL() time.Duration {
	if r.sc.Cfg.FailedUpdateTTLNs == 0 {
		return 20 * time.Second
	}

	return dur(r.sc.Cfg.FailedUpdateTTLNs)
}

func contains(xs []int, v int) bool {
	for _, x := range xs {
		if x == v {
			return true
		}
	}

	return false
}

// --- backend wrapper ----------------------------------------------------------------------

func (r *foRun) beRead(ctx context.Context, k []byte, real func() (interface{}, error)) (interface{}, error) {
	zs.Yield("be.Read")

	c := &beCall{
		seq: r.e.s.NextSeq(), ns: r.e.s.NowNs(), kind: "read", key: string(k),
		skipRead: cache.SkipRead(ctx), ctxErr: ctx.Err(), task: r.e.s.CurID(), ordinal: r.nRead,
	}
	r.nRead++
	r.calls = append(r.calls, c)

	if !r.noFaults && contains(r.sc.Faults.ReadErrAt, c.ordinal) {
		c.injected = true
		c.err = ErrTok{K: c.key, ID: fmt.Sprintf("be-read#%d", c.ordinal)}
		c.retSeq = r.e.s.NextSeq()
		r.e.out.fault("read_err")
		r.e.logf("be.Read(%q) -> injected %v", c.key, c.err)

		return nil, c.err
	}

	c.val, c.err = real()
	c.retSeq = r.e.s.NextSeq()
	var ei cache.ErrWithExpiredItem
	if errors.As(c.err, &ei) {
		r.e.logf("be.Read(%q) -> %v, %v (value %v, expired at %v)", c.key, c.val, c.err, unwrapVal(ei.Value()), ei.ExpiredAt().UTC().Format("15:04:05.000000000"))
	} else {
		r.e.logf("be.Read(%q) -> %v, %v", c.key, c.val, c.err)
	}

	return c.val, c.err
}

func (r *foRun) beWrite(ctx context.Context, k []byte, v interface{}, real func() error) error {
	zs.Yield("be.Write")

	c := &beCall{
		seq: r.e.s.NextSeq(), ns: r.e.s.NowNs(), kind: "write", key: string(k), val: v,
		skipRead: cache.SkipRead(ctx), ctxErr: ctx.Err(), task: r.e.s.CurID(), ordinal: r.nWrite,
	}
	c.ttlNs = int64(cache.TTL(ctx))
	c.hasTTL = c.ttlNs != 0
	r.nWrite++
	r.calls = append(r.calls, c)

	refresh := time.Duration(c.ttlNs) == r.updateTTL && r.isOldToken(v)
	fail := !r.noFaults && contains(r.sc.Faults.WriteErrAt, c.ordinal)

	if refresh {
		if !r.noFaults && contains(r.sc.Faults.RefreshErrAt, r.nRefresh) {
			fail = true
		}

		r.nRefresh++
	}

	if fail {
		c.injected = true
		c.err = ErrTok{K: c.key, ID: fmt.Sprintf("be-write#%d", c.ordinal)}
		c.retSeq = r.e.s.NextSeq()

		if refresh {
			r.e.out.fault("write_err_on_refresh")
		} else {
			r.e.out.fault("write_err")
		}

		r.e.logf("be.Write(%q, %v, ttl=%v) -> injected %v", c.key, v, time.Duration(c.ttlNs), c.err)

		return c.err
	}

	c.err = real()
	c.retSeq = r.e.s.NextSeq()
	r.e.logf("be.Write(%q, %v, ttl=%v) -> %v", c.key, v, time.Duration(c.ttlNs), c.err)

	return c.err
}

// isOldToken reports whether v is a token that was already accepted by the backend before.
func (r *foRun) isOldToken(v interface{}) bool {
	t, ok := v.(Tok)
	if !ok {
		return false
	}

	if t.ID == "pre" {
		return true
	}

	for _, c := range r.calls[:len(r.calls)-1] {
		if c.kind == "write" && c.err == nil && c.val == v {
			return true
		}
	}

	return false
}

type beWrap struct {
	r    *foRun
	real cache.ReadWriter
}

func (w beWrap) Read(ctx context.Context, k []byte) (interface{}, error) {
	var raw interface{}

	v, err := w.r.beRead(ctx, k, func() (interface{}, error) {
		x, err := w.real.Read(ctx, k)
		raw = x

		if x == nil && err == nil {
			return nilTok(string(k), nil), nil // a stored nil value
		}

		return unwrapVal(x), err
	})
	if err == nil {
		return raw, nil // the library gets the stored representation (possibly nil), the call log the token
	}

	if w.r.sc.PlainExpired && errors.Is(err, cache.ErrExpired) {
		v, err = nil, cache.ErrExpired
	}

	if err != nil && w.r.sc.WrapBackendErrs {
		err = fmt.Errorf("decorated backend: %w", err)
	}

	return v, err
}

func (w beWrap) Write(ctx context.Context, k []byte, v interface{}) error {
	return w.r.beWrite(ctx, k, nilTok(string(k), unwrapVal(v)), func() error { return w.real.Write(ctx, k, v) })
}

type beWrapOf struct {
	r    *foRun
	real cache.ReadWriterOf[Tok]
}

func (w beWrapOf) Read(ctx context.Context, k []byte) (Tok, error) {
	v, err := w.r.beRead(ctx, k, func() (interface{}, error) {
		t, err := w.real.Read(ctx, k)

		return t, err
	})
	if err != nil {
		if w.r.sc.PlainExpired && errors.Is(err, cache.ErrExpired) {
			err = cache.ErrExpired
		}

		if w.r.sc.WrapBackendErrs {
			err = fmt.Errorf("decorated backend: %w", err)
		}

		return Tok{}, err
	}

	return v.(Tok), nil
}

func (w beWrapOf) Write(ctx context.Context, k []byte, v Tok) error {
	return w.r.beWrite(ctx, k, v, func() error { return w.real.Write(ctx, k, v) })
}

// --- logger / stats -------------------------------------------------------------------------

type simLogger struct{ r *foRun }

func (l simLogger) rec(level, msg string, kv []interface{}) {
	zs.Yield("log." + level)
	renderLogArgs(kv)
	l.r.logs = append(l.r.logs, logRec{seq: l.r.e.s.NextSeq(), level: level, msg: msg, task: l.r.e.s.CurID()})
}
func (l simLogger) Error(_ context.Context, msg string, kv ...interface{}) { l.rec("error", msg, kv) }
func (l simLogger) Debug(_ context.Context, msg string, kv ...interface{}) { l.rec("debug", msg, kv) }
func (l simLogger) Warn(_ context.Context, msg string, kv ...interface{})  { l.rec("warn", msg, kv) }
func (l simLogger) Important(_ context.Context, msg string, kv ...interface{}) {
	l.rec("important", msg, kv)
}

type simStats struct {
	recs *[]statRec
	s    func() *zs.Sim
}

func labelName(lv []string) string {
	for i := 0; i+1 < len(lv); i += 2 {
		if lv[i] == "name" {
			return lv[i+1]
		}
	}

	return ""
}

func (st simStats) Add(_ context.Context, name string, inc float64, lv ...string) {
	zs.Yield("stats." + name)
	*st.recs = append(*st.recs, statRec{seq: st.s().NextSeq(), name: name, val: inc, label: labelName(lv)})
}

func (st simStats) Set(_ context.Context, name string, v float64, lv ...string) {
	zs.Yield("stats.set." + name)
	*st.recs = append(*st.recs, statRec{seq: st.s().NextSeq(), name: name, val: v, label: labelName(lv), set: true})
}

// --- construction ---------------------------------------------------------------------------

const farFuture = 1000000 * time.Hour

func (r *foRun) construct() {
	sc := r.sc
	e := r.e

	bcfg := cache.Config{
		Name:                     "be",
		TimeToLive:               dur(sc.BackendTTLNs),
		ExpirationJitter:         sc.BackendJitter,
		DeleteExpiredJobInterval: farFuture,
		ItemsCountReportInterval: farFuture,
	}

	var (
		logger cache.Logger
		stats  cache.StatsTracker
	)

	if sc.Cfg.Logger {
		logger = shapeLogger(simLogger{r: r}, sc.Cfg.LogMask)
	}

	if sc.Cfg.Stats {
		stats = simStats{recs: &r.stats, s: func() *zs.Sim { return e.s }}
	}

	bcfg.Stats = stats

	switch sc.Backend {
	case "syncmap":
		m := cache.NewSyncMap(bcfg.Use)
		r.be = foBackend{
			plain: m, stop: m.VerifStop, len: m.Len, expAl: m.ExpireAll, del: m.Delete,
			read: func(ctx context.Context, k []byte) (interface{}, error) {
				v, err := m.Read(ctx, k)
				if v == nil && err == nil {
					return nilTok(string(k), nil), nil // a stored nil value
				}

				return unwrapVal(v), err
			},
			write: func(ctx context.Context, k []byte, v Tok) error { return m.Write(ctx, k, wrapVal(sc.ValRep, v)) },
			walk: func(fn func(key []byte, v interface{}, exp time.Time)) {
				_, _ = m.Walk(func(en cache.Entry) error {
					fn(en.Key(), nilTok(string(en.Key()), unwrapVal(en.Value())), en.ExpireAt())
					return nil
				})
			},
		}
	case "shardedOf":
		m := cache.NewShardedMapOf[Tok](bcfg.Use)
		r.be = foBackend{
			gen: m, stop: m.VerifStop, len: m.Len, expAl: m.ExpireAll, del: m.Delete,
			read:  func(ctx context.Context, k []byte) (interface{}, error) { return m.Read(ctx, k) },
			write: func(ctx context.Context, k []byte, v Tok) error { return m.Write(ctx, k, v) },
			walk: func(fn func(key []byte, v interface{}, exp time.Time)) {
				_, _ = m.Walk(func(en cache.EntryOf[Tok]) error { fn(en.Key(), en.Value(), en.ExpireAt()); return nil })
			},
		}
	case "shardedOfAny":
		// ShardedMapOf[interface{}] satisfies the non-generic ReadWriter: Failover over the generic backend.
		m := cache.NewShardedMapOf[interface{}](bcfg.Use)
		r.be = foBackend{
			plain: m, stop: m.VerifStop, len: m.Len, expAl: m.ExpireAll, del: m.Delete,
			read: func(ctx context.Context, k []byte) (interface{}, error) {
				v, err := m.Read(ctx, k)
				if v == nil && err == nil {
					return nilTok(string(k), nil), nil // a stored nil value
				}

				return unwrapVal(v), err
			},
			write: func(ctx context.Context, k []byte, v Tok) error { return m.Write(ctx, k, wrapVal(sc.ValRep, v)) },
			walk: func(fn func(key []byte, v interface{}, exp time.Time)) {
				_, _ = m.Walk(func(en cache.EntryOf[interface{}]) error {
					fn(en.Key(), nilTok(string(en.Key()), unwrapVal(en.Value())), en.ExpireAt())
					return nil
				})
			},
		}
	default:
		m := cache.NewShardedMap(bcfg.Use)
		r.be = foBackend{
			plain: m, stop: m.VerifStop, len: m.Len, expAl: m.ExpireAll, del: m.Delete,
			read: func(ctx context.Context, k []byte) (interface{}, error) {
				v, err := m.Read(ctx, k)
				if v == nil && err == nil {
					return nilTok(string(k), nil), nil // a stored nil value
				}

				return unwrapVal(v), err
			},
			write: func(ctx context.Context, k []byte, v Tok) error { return m.Write(ctx, k, wrapVal(sc.ValRep, v)) },
			walk: func(fn func(key []byte, v interface{}, exp time.Time)) {
				_, _ = m.Walk(func(en cache.Entry) error {
					fn(en.Key(), nilTok(string(en.Key()), unwrapVal(en.Value())), en.ExpireAt())
					return nil
				})
			},
		}
	}

	stopped := false
	beStop := r.be.stop
	r.be.stop = func() {
		if !stopped {
			stopped = true
			beStop()
		}
	}
	e.cleanup = append(e.cleanup, r.be.stop)

	r.updateTTL = r.cfgUpdateTTL()
	r.failedTTL = r.cfgFailedTTL()

	if sc.DefaultBackend {
		// the library creates backend and failure cache itself from BackendConfig
		bc := sc.BackendCfg
		lib := cache.Config{
			TimeToLive: dur(sc.BackendTTLNs), ExpirationJitter: sc.BackendJitter,
			CountSoftLimit: bc.CountSoftLimit, EvictFraction: bc.EvictFraction, EvictionStrategy: cache.EvictionStrategy(bc.Strategy),
			DeleteExpiredJobInterval: dur(bc.JanitorIntervalNs), ItemsCountReportInterval: farFuture,
		}

		if sc.API == "failoverOf" {
			f := cache.NewFailoverOf[Tok](cache.FailoverConfigOf[Tok]{
				Name: "fo", BackendConfig: lib,
				FailedUpdateTTL: dur(sc.Cfg.FailedUpdateTTLNs), UpdateTTL: dur(sc.Cfg.UpdateTTLNs),
				SyncUpdate: sc.Cfg.SyncUpdate, SyncRead: sc.Cfg.SyncRead, MaxStaleness: dur(sc.Cfg.MaxStalenessNs),
				FailHard: sc.Cfg.FailHard, Logger: logger, Stats: stats,
			}.Use)
			r.api = genAPI{f}
		} else {
			f := cache.NewFailover(cache.FailoverConfig{
				Name: "fo", BackendConfig: lib,
				FailedUpdateTTL: dur(sc.Cfg.FailedUpdateTTLNs), UpdateTTL: dur(sc.Cfg.UpdateTTLNs),
				SyncUpdate: sc.Cfg.SyncUpdate, SyncRead: sc.Cfg.SyncRead, MaxStaleness: dur(sc.Cfg.MaxStalenessNs),
				FailHard: sc.Cfg.FailHard, Logger: logger, Stats: stats,
			}.Use)
			r.api = plainAPI{f: f, rep: sc.ValRep}
		}

		e.cleanup = append(e.cleanup, r.stopAPI)

		return
	}

	if sc.API == "failoverOfAny" {
		if r.be.plain == nil {
			panic("failoverOfAny needs an untyped backend")
		}

		f := cache.NewFailoverOf[interface{}](cache.FailoverConfigOf[interface{}]{
			Name: "fo", Backend: beWrap{r: r, real: r.be.plain},
			FailedUpdateTTL: dur(sc.Cfg.FailedUpdateTTLNs), UpdateTTL: dur(sc.Cfg.UpdateTTLNs),
			SyncUpdate: sc.Cfg.SyncUpdate, SyncRead: sc.Cfg.SyncRead, MaxStaleness: dur(sc.Cfg.MaxStalenessNs),
			FailHard: sc.Cfg.FailHard, Logger: logger, Stats: stats, ObserveMutability: sc.Cfg.ObserveMutability,
		}.Use)
		r.api = anyAPI{f: f, rep: sc.ValRep}
		e.cleanup = append(e.cleanup, r.stopAPI)

		return
	}

	if sc.API == "failoverOf" {
		if r.be.gen == nil {
			panic("failoverOf needs shardedOf backend")
		}

		f := cache.NewFailoverOf[Tok](cache.FailoverConfigOf[Tok]{
			Name: "fo", Backend: beWrapOf{r: r, real: r.be.gen},
			FailedUpdateTTL: dur(sc.Cfg.FailedUpdateTTLNs), UpdateTTL: dur(sc.Cfg.UpdateTTLNs),
			SyncUpdate: sc.Cfg.SyncUpdate, SyncRead: sc.Cfg.SyncRead, MaxStaleness: dur(sc.Cfg.MaxStalenessNs),
			FailHard: sc.Cfg.FailHard, Logger: logger, Stats: stats, ObserveMutability: sc.Cfg.ObserveMutability,
		}.Use)
		r.api = genAPI{f}
		e.cleanup = append(e.cleanup, r.stopAPI)
	} else {
		if r.be.plain == nil {
			panic("failover needs sharded or syncmap backend")
		}

		f := cache.NewFailover(cache.FailoverConfig{
			Name: "fo", Backend: beWrap{r: r, real: r.be.plain},
			FailedUpdateTTL: dur(sc.Cfg.FailedUpdateTTLNs), UpdateTTL: dur(sc.Cfg.UpdateTTLNs),
			SyncUpdate: sc.Cfg.SyncUpdate, SyncRead: sc.Cfg.SyncRead, MaxStaleness: dur(sc.Cfg.MaxStalenessNs),
			FailHard: sc.Cfg.FailHard, Logger: logger, Stats: stats, ObserveMutability: sc.Cfg.ObserveMutability,
		}.Use)
		r.api = plainAPI{f: f, rep: sc.ValRep}
		e.cleanup = append(e.cleanup, r.stopAPI)
	}
}

func (r *foRun) stopAPI() {
	if !r.apiStopped {
		r.apiStopped = true
		r.api.Stop()
	}
}

func (r *foRun) initState() {
	ctx := context.Background()

	for _, in := range r.sc.Init {
		k := []byte(r.sc.Keys[in.Key])

		write := func(ctx context.Context) {
			if in.NilValue && r.be.plain != nil {
				_ = r.be.plain.Write(ctx, k, nil)

				return
			}

			_ = r.be.write(ctx, k, Tok{K: string(k), ID: "pre"})
		}

		switch in.State {
		case "fresh":
			write(ctx)
		case "stale":
			age := in.AgeNs
			if age <= 0 {
				age = 1
			}

			write(cache.WithTTL(ctx, -dur(age), false))
		}

		if in.FailAgeNs >= 0 && r.api.HasErrors() {
			remaining := r.failedTTL - dur(in.FailAgeNs)
			if remaining == 0 {
				remaining = -1
			}

			r.api.ErrorsWrite(cache.WithTTL(ctx, remaining, false), k, ErrTok{K: string(k), ID: "prefail"})
		}
	}
}

// --- clients ----------------------------------------------------------------------------------

func (r *foRun) spawnClients() {
	for ci := range r.sc.Clients {
		ci := ci

		r.e.s.Spawn(fmt.Sprintf("c%d", ci), func() { r.client(ci) })
	}
}

func (r *foRun) client(ci int) {
	shared := make([]byte, 0, 64)

	for oi := range r.sc.Clients[ci] {
		op := &r.sc.Clients[ci][oi]

		zs.Yield("op")

		switch op.Kind {
		case "sleep":
			r.e.out.fault("clock_jump")
			zs.Sleep(dur(op.SleepNs))
		case "get":
			shared = r.doGet(ci, oi, op, shared)
		case "expireAll":
			// another part of the application expires the whole backend (directly, not through Failover)
			// while Gets are in flight
			if !r.sc.DefaultBackend {
				r.e.logf("c%d.%d backend.ExpireAll", ci, oi)
				r.be.expAl(context.Background())
				r.e.out.fault("backend_expire_all_during_gets")
			}
		case "sideWrite":
			// ... or stores a value for a key directly
			if !r.sc.DefaultBackend {
				key := r.sc.Keys[op.Key]
				tok := Tok{K: key, ID: fmt.Sprintf("side%d.%d", ci, oi)}
				r.sideWrites = append(r.sideWrites, sideWrite{key: key, tok: tok, seq: r.e.s.NextSeq()})
				r.e.logf("c%d.%d backend.Write(%q, %v)", ci, oi, key, tok)
				_ = r.be.write(context.Background(), []byte(key), tok)
				r.e.out.fault("backend_write_during_gets")
			}
		case "sideDelete":
			// ... or deletes a key directly
			if !r.sc.DefaultBackend {
				key := r.sc.Keys[op.Key]
				r.e.logf("c%d.%d backend.Delete(%q)", ci, oi, key)
				_ = r.be.del(context.Background(), []byte(key))
				r.e.out.fault("backend_delete_during_gets")
			}
		}
	}
}

func (r *foRun) doGet(ci, oi int, op *FOOp, shared []byte) []byte {
	e := r.e
	key := r.sc.Keys[op.Key]

	var kb []byte
	if op.ReuseBuf {
		shared = append(shared[:0], key...)
		kb = shared
	} else {
		kb = []byte(key)

		if op.MutateKey == "" {
			// the caller owns its key slice again once Get has returned
			defer scribble(kb)
		}
	}

	ctx := context.WithValue(context.Background(), markerKey{}, "marker")

	if op.UseShared && r.sharedCtx != nil {
		ctx = r.sharedCtx
	}

	own := op.OwnCtx && r.sc.OwnCtxTTLNs != 0 && ci < nestedClientBase && !(op.UseShared && r.sharedCtx != nil)
	if own {
		if r.ownCtx == nil {
			r.ownCtx = map[int]context.Context{}
		}

		if r.ownCtx[ci] == nil {
			r.ownCtx[ci] = cache.WithTTL(ctx, dur(r.sc.OwnCtxTTLNs), false)
		}

		ctx = r.ownCtx[ci]
	}

	var cancel context.CancelFunc

	switch op.Cancel {
	case "before":
		ctx, cancel = context.WithCancel(ctx)
		cancel()
	case "after":
		ctx, cancel = context.WithCancel(ctx)
	case "deadline":
		ctx, cancel = context.WithTimeout(ctx, time.Millisecond)
	}

	if op.HasCtxTTL && !(op.UseShared && r.sharedCtx != nil) && !own {
		ctx = cache.WithTTL(ctx, dur(op.CtxTTLNs), false)
	}

	if op.SkipRead {
		ctx = cache.WithSkipRead(ctx)
	}

	rec := &opRec{client: ci, idx: oi, op: op, key: key, hadCtxTTL: op.HasCtxTTL, task: e.s.CurID(), nested: ci >= nestedClientBase}
	r.ops = append(r.ops, rec)

	build := func(bctx context.Context) (Tok, error) { return r.builder(rec, bctx) }

	rec.locksAtInvoke = r.api.KeyLockNames()
	rec.inv = e.s.NextSeq()
	rec.invNs = e.s.NowNs()
	e.logf("invoke %s Get(%q)%s", rec.id(), key, opFlags(op))

	func() {
		defer func() {
			if p := recover(); p != nil {
				if zs.IsKilled(p) {
					panic(p)
				}

				if _, scripted := p.(builderPanic); scripted {
					// the caller's own builder panicked and the caller recovered: a builder failure
					rec.err = errBuilderPanicked
					e.out.fault("build_panic")
					e.logf("%s: builder panic propagated to the caller and was recovered there", rec.id())

					return
				}

				rec.panicked = true
				rec.err = fmt.Errorf("panic: %v", p)
				e.out.violate(e.sc.Prop+".PANIC", fmt.Sprint(p), "Get(%q) panicked: %v", key, p)
			}
		}()

		rec.val, rec.err = r.api.Get(ctx, kb, build)
	}()

	rec.ret = e.s.NextSeq()
	rec.retNs = e.s.NowNs()
	rec.done = true
	rec.callerTTL = int64(cache.TTL(ctx))
	e.logf("return %s Get(%q) -> %v, %v", rec.id(), key, rec.val, rec.err)

	if op.Cancel == "after" {
		cancel()
		e.out.fault("cancel_ctx_after_return")
	} else if cancel != nil {
		defer cancel()
	}

	switch {
	case op.MutateKey == "garbage":
		for i := range kb {
			kb[i] = '#'
		}

		e.out.fault("mutate_key_after_return")
		e.logf("caller overwrote key buffer of %s with garbage", rec.id())
	case len(op.MutateKey) > 4 && op.MutateKey[:4] == "key:":
		var idx int

		_, _ = fmt.Sscanf(op.MutateKey[4:], "%d", &idx)
		other := r.sc.Keys[idx]
		n := copy(kb, other)

		for i := n; i < len(kb); i++ {
			kb[i] = '#'
		}

		e.out.fault("mutate_key_after_return")
		e.logf("caller overwrote key buffer of %s with %q", rec.id(), string(kb))
	}

	return shared
}

func opFlags(op *FOOp) string {
	s := ""
	if op.SkipRead {
		s += " skipRead"
	}

	if op.HasCtxTTL {
		s += fmt.Sprintf(" ctxTTL=%v", dur(op.CtxTTLNs))
	}

	if op.Cancel != "" {
		s += " cancel=" + op.Cancel
	}

	return s
}

type builderPanic struct{}

// nestedClientBase: client numbers of Gets issued by builders (ids c1000.x and up).
const nestedClientBase = 1000

var errBuilderPanicked = errors.New("builder panicked (scripted)")

func (r *foRun) builder(rec *opRec, ctx context.Context) (Tok, error) {
	e := r.e
	op := rec.op

	b := &buildRec{op: rec, key: rec.key, task: e.s.CurID()}
	b.background = b.task != rec.task
	b.enter = e.s.NextSeq()
	b.enterNs = e.s.NowNs()
	b.ctxErrEnter = ctx.Err()
	_, b.hasDeadline = ctx.Deadline()
	b.doneNil = ctx.Done() == nil
	b.markerVisible = ctx.Value(markerKey{}) == "marker"
	r.builds = append(r.builds, b)
	rec.builds = append(rec.builds, b)

	if r.openBuilds == nil {
		r.openBuilds = map[string][]*buildRec{}
	}

	if open := r.openBuilds[rec.key]; len(open) > 0 && (e.sc.Prop == "C01" || e.sc.Prop == "C09") {
		rule, sig := "C01.R1", "overlap"
		if e.sc.Prop == "C09" {
			rule, sig = "C09.R4", "two-builds-after-key-rewrite"
		}

		e.out.violate(rule, sig, "builder for key %q entered by %s (task %s) at seq %d while the build of %s (task %s, entered at seq %d) is still running",
			rec.key, rec.id(), b.task, b.enter, open[0].op.id(), open[0].task, open[0].enter)
	}

	r.openBuilds[rec.key] = append(r.openBuilds[rec.key], b)
	e.logf("build enter %s key=%q task=%s", rec.id(), rec.key, b.task)

	zs.Yield("build.enter")

	if op.NestKey > 0 && op.NestKey-1 < len(r.sc.Keys) && r.sc.Keys[op.NestKey-1] != rec.key && !rec.nested {
		// the builder needs another cached value: a Get for a different key on the same Failover
		nop := &FOOp{Kind: "get", Key: op.NestKey - 1}
		r.nestedOps = append(r.nestedOps, nop)
		e.out.probe("builder_calls_get_for_another_key")
		r.doGet(nestedClientBase+rec.client, rec.idx, nop, nil)
	}

	if op.BuildSleepNs > 0 {
		zs.Sleep(dur(op.BuildSleepNs))
		e.out.fault("build_slow")
	}

	for _, tc := range op.BuildTTLs {
		ctx = cache.WithTTL(ctx, dur(tc.Ns), tc.Update)
		e.out.fault("build_sets_ttl")
	}

	zs.Yield("build.exit")

	b.ctxErrExit = ctx.Err()
	b.causeExit = context.Cause(ctx)

	if d := ctx.Done(); d != nil {
		select {
		case <-d:
			b.doneFired = true
		default:
		}
	}

	open := r.openBuilds[rec.key]
	for i, x := range open {
		if x == b {
			open = append(open[:i], open[i+1:]...)

			break
		}
	}

	r.openBuilds[rec.key] = open

	b.exit = e.s.NextSeq()
	b.exitNs = e.s.NowNs()
	b.exited = true

	if op.BuildPanic && !b.background {
		b.fail = true
		b.err = ErrTok{K: rec.key, ID: "panic" + rec.id()[1:]}
		e.logf("build exit %s key=%q -> panic", rec.id(), rec.key)

		panic(builderPanic{})
	}

	if op.BuildFail {
		b.fail = true
		b.err = ErrTok{K: rec.key, ID: "b" + rec.id()[1:], W: op.BuildErrKind}
		e.out.fault("build_err")
		e.logf("build exit %s key=%q -> error %v", rec.id(), rec.key, b.err)

		return Tok{}, b.err
	}

	b.tok = Tok{K: rec.key, ID: "b" + rec.id()[1:]}
	if op.BuildEqual {
		b.tok = Tok{K: rec.key, ID: "pre"}
	}

	if op.BuildNil && r.sc.API != "failoverOf" {
		b.tok = Tok{K: rec.key, ID: nilID} // wrapVal turns it into a nil interface
		e.out.probe("builder_returned_nil_value")
	}

	e.logf("build exit %s key=%q -> %v", rec.id(), rec.key, b.tok)

	return b.tok, nil
}

// --- engine entry -----------------------------------------------------------------------------

func init() { engines["fo"] = runFO }

func runFO(e *env) {
	r := &foRun{e: e, sc: e.sc.FO}

	if len(r.sc.KeyBytes) > 0 {
		r.sc.Keys = nil
		for _, k := range r.sc.KeyBytes {
			r.sc.Keys = append(r.sc.Keys, string(k))
		}
	}

	e.setup = true
	r.construct()
	r.initState()
	e.setup = false

	if r.sc.ExpireAllFirst {
		e.setup = true
		r.be.expAl(context.Background())
		e.setup = false
		e.out.fault("expire_all_before_get")
	}

	if r.sc.SharedCtxTTLNs != 0 {
		r.sharedCtx = cache.WithTTL(context.WithValue(context.Background(), markerKey{}, "marker"), dur(r.sc.SharedCtxTTLNs), false)
	}

	r.spawnClients()

	stuckRule := ""
	if e.sc.Prop == "C04" {
		stuckRule = "C04.R1"
	}

	quiescent := e.runAll(stuckRule)
	e.checkPanics()

	if quiescent {
		r.oracles()
	} else if e.out.Internal != "" && e.out.Verdict == "stuck" && stuckRule == "" {
		// A stuck Get is C04's subject; other properties cannot judge this run.
		e.out.Internal = ""
		e.out.Inconcl++
		e.out.probe("stuck_run_skipped")
	}

	// Stop janitors and let them exit.
	r.stopAPI()

	if r.be.stop != nil {
		r.be.stop()
	}

	if v := e.s.Run(); v != zs.Quiescent && quiescent && e.out.Internal == "" && len(e.out.Violations) == 0 {
		e.out.Internal = "janitors did not stop: " + e.s.StuckInfo
	}

	e.s.SettleRoot()
}

func (r *foRun) oracles() {
	switch r.e.sc.Prop {
	case "C01":
		r.oracleC01()
	default:
		if f := foOracles[r.e.sc.Prop]; f != nil {
			f(r)
		}
	}
}

var foOracles = map[string]func(r *foRun){}

func isErrTok(err error) (ErrTok, bool) {
	var et ErrTok
	if errors.As(err, &et) {
		return et, true
	}

	return et, false
}
