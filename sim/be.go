package sim

import (
	"bytes"
	"context"
	"errors"
	"fmt"
	"io"
	"time"

	"github.com/bool64/cache"
	zs "github.com/bool64/cache/zzverifsim"
)

// BEConfig mirrors cache.Config for the backend engine.
type BEConfig struct {
	TTLNs                int64   `json:"ttl_ns,omitempty"` // 0 default (5m), -1 unlimited
	Jitter               float64 `json:"jitter,omitempty"` // 0 default (0.1), -1 disabled
	DeleteExpiredAfterNs int64   `json:"delete_expired_after_ns,omitempty"`
	JanitorIntervalNs    int64   `json:"janitor_interval_ns,omitempty"` // 0: far future (janitor never runs)
	CountSoftLimit       uint64  `json:"count_soft_limit,omitempty"`
	EvictFraction        float64 `json:"evict_fraction,omitempty"`
	Strategy             int     `json:"strategy,omitempty"` // 0 most expired, 1 LRU, 2 LFU
	// EvictionNeeded is the script of the EvictionNeeded callback, one answer per call
	// (nil: callback not configured; exhausted: false).
	EvictionNeeded []bool `json:"eviction_needed,omitempty"`
	Stats          bool   `json:"stats,omitempty"`
	Logger         bool   `json:"logger,omitempty"`
	LogMask        int    `json:"log_mask,omitempty"` // shape of the logger, see shapeLogger
	// HeapLimit / SysLimit: HeapInUseSoftLimit / SysMemSoftLimit. Only the values that do not depend on
	// the real allocator are used: 0 (off), 1 (always exceeded), MaxUint64 (never exceeded).
	HeapLimit uint64 `json:"heap_limit,omitempty"`
	SysLimit  uint64 `json:"sys_limit,omitempty"`
	// LibDefaults: DeleteExpiredAfter and DeleteExpiredJobInterval are left zero, the documented defaults
	// (24h, 1h) apply.
	LibDefaults bool `json:"lib_defaults,omitempty"`
	// ItemsReportNs: ItemsCountReportInterval (0: far future).
	ItemsReportNs int64 `json:"items_report_ns,omitempty"`
}

// BEOp is one backend operation.
type BEOp struct {
	Kind     string `json:"kind"` // write read delete expireAll deleteAll len walk load store sleep
	Key      int    `json:"key,omitempty"`
	HasTTL   bool   `json:"has_ttl,omitempty"`
	TTLNs    int64  `json:"ttl_ns,omitempty"`
	SkipRead bool   `json:"skip_read,omitempty"`
	SleepNs  int64  `json:"sleep_ns,omitempty"`
	Mutate   bool   `json:"mutate,omitempty"`   // overwrite the key buffer right after the call returned (C09)
	NilVal   bool   `json:"nil_val,omitempty"`  // write / store a nil interface value (untyped backends)
	CtxDone  bool   `json:"ctx_done,omitempty"` // the call gets an already cancelled context (no backend result depends on it)
	// restoreServed (C12): eviction strategy of the source cache and how often it served the entry there
	SrcStrategy int `json:"src_strategy,omitempty"`
	SrcServes   int `json:"src_serves,omitempty"`
}

// BEScenario is the backend engine's part of a scenario.
type BEScenario struct {
	Mode    string `json:"mode"`    // seq | conc | ttl | janitor | evict
	Backend string `json:"backend"` // sharded | syncmap | shardedOf
	// ValRep: representation of the values handed to the untyped backends (see valrep.go).
	ValRep string   `json:"val_rep,omitempty"`
	Cfg    BEConfig `json:"cfg"`
	Keys   [][]byte `json:"keys"`
	// Groups[i] is the collision group of key i (keys with equal xxhash64); -1: none.
	Groups  []int    `json:"groups,omitempty"`
	Clients [][]BEOp `json:"clients,omitempty"`
	// Phases for root-driven modes (janitor / evict / ttl).
	Root []BEOp `json:"root,omitempty"`
	// KeepRoot: the root's pre-loading operations stay part of the recorded history (seq / conc modes).
	KeepRoot bool `json:"keep_root,omitempty"`
	// OverlapExpire (C08 family): the clients only call ExpireAll, at about the same time, on entries the root
	// wrote before; afterwards every untouched entry must carry one and the same expiry (the earliest call's).
	OverlapExpire bool `json:"overlap_expire,omitempty"`
}

type walkDelRec struct {
	key string
	err error
}

type walkEnt struct {
	key string
	val interface{}
	exp int64
	seq uint64
}

type beRec struct {
	client, idx int
	op          *BEOp
	kind        string
	key         string
	inv, ret    uint64
	invT, retT  int64 // unix ns of the bubble clock
	done        bool

	tok     Tok // value written
	val     interface{}
	ok      bool
	err     error
	n       int
	walkErr error
	walkDel []walkDelRec // walkDel: Delete calls issued from inside the Walk callback
	walk    []walkEnt
	panicV  interface{}

	// captured when the call returned (the error is a live view of the entry)
	expVal interface{}
	expAt  int64
	expOK  bool

	dump []byte // bytes produced by a dump operation
}

func (r *beRec) id() string { return fmt.Sprintf("c%d.%d", r.client, r.idx) }

// beBackend abstracts over the three real backends.
type beBackend struct {
	read   func(ctx context.Context, k []byte) (interface{}, error)
	write  func(ctx context.Context, k []byte, v Tok) error
	del    func(ctx context.Context, k []byte) error
	expAll func(ctx context.Context)
	delAll func(ctx context.Context)
	length func() int
	walk   func(fn func(key []byte, v interface{}, exp time.Time) error) (int, error)
	load   func(k []byte) (interface{}, bool)
	store  func(k []byte, v Tok)
	stop   func()
	// expiredItem extracts value and expiry from an expiration error.
	expiredItem func(err error) (interface{}, time.Time, bool)
	wdr         cache.WalkDumpRestorer
	dump        func(w io.Writer) (int, error)
	restore     func(r io.Reader) (int, error)
	raw         interface{}
}

func newBackend(kind string, cfg cache.Config) beBackend { return newBackendRep(kind, cfg, "") }

// liveBackends: stop functions of every backend created during the current run (one run at a time per process).
// Whatever happens to the run - also a library panic in the middle of an oracle - all of them are stopped before
// the bubble ends: a cache that is merely dropped would be stopped by its finalizer later, outside the bubble.
var liveBackends []func()

func newBackendRep(kind string, cfg cache.Config, rep string) beBackend {
	b := newBackendRep1(kind, cfg, rep)

	stopped := false
	stop := b.stop
	b.stop = func() {
		if !stopped {
			stopped = true
			stop()
		}
	}

	liveBackends = append(liveBackends, b.stop)

	return b
}

func newBackendRep1(kind string, cfg cache.Config, rep string) beBackend {
	unwrapExpired := func(err error) (interface{}, time.Time, bool) {
		v, at, ok := plainExpired(err)

		return unwrapVal(v), at, ok
	}

	switch kind {
	case "syncmap":
		m := cache.NewSyncMap(cfg.Use)

		return beBackend{
			raw: m, wdr: m, dump: m.Dump, restore: m.Restore,
			read: func(ctx context.Context, k []byte) (interface{}, error) {
				v, err := m.Read(ctx, k)

				return unwrapVal(v), err
			},
			write:  func(ctx context.Context, k []byte, v Tok) error { return m.Write(ctx, k, wrapVal(rep, v)) },
			del:    m.Delete,
			expAll: m.ExpireAll, delAll: m.DeleteAll, length: m.Len, stop: m.VerifStop,
			walk: func(fn func(key []byte, v interface{}, exp time.Time) error) (int, error) {
				return m.Walk(func(en cache.Entry) error {
					zs.ReadAll(en, walkCopyLabel)
					return fn(en.Key(), unwrapVal(en.Value()), en.ExpireAt())
				})
			},
			// SyncMap has no Load/Store of its own: Read/Write with a background context.
			load: func(k []byte) (interface{}, bool) {
				v, err := m.Read(context.Background(), k)

				return unwrapVal(v), err == nil
			},
			store:       func(k []byte, v Tok) { _ = m.Write(context.Background(), k, wrapVal(rep, v)) },
			expiredItem: unwrapExpired,
		}
	case "shardedOf":
		m := cache.NewShardedMapOf[Tok](cfg.Use)

		return beBackend{
			raw: m, wdr: m.WalkDumpRestorer(), dump: m.Dump, restore: m.Restore,
			read:   func(ctx context.Context, k []byte) (interface{}, error) { return m.Read(ctx, k) },
			write:  func(ctx context.Context, k []byte, v Tok) error { return m.Write(ctx, k, v) },
			del:    m.Delete,
			expAll: m.ExpireAll, delAll: m.DeleteAll, length: m.Len, stop: m.VerifStop,
			walk: func(fn func(key []byte, v interface{}, exp time.Time) error) (int, error) {
				return m.Walk(func(en cache.EntryOf[Tok]) error {
					zs.ReadAll(en, walkCopyLabel)
					return fn(en.Key(), en.Value(), en.ExpireAt())
				})
			},
			load: func(k []byte) (interface{}, bool) {
				v, ok := m.Load(k)

				return v, ok
			},
			store: func(k []byte, v Tok) { m.Store(k, v) },
			expiredItem: func(err error) (interface{}, time.Time, bool) {
				var ee cache.ErrWithExpiredItemOf[Tok]
				if errors.As(err, &ee) {
					return ee.Value(), ee.ExpiredAt(), true
				}

				return nil, time.Time{}, false
			},
		}
	default:
		m := cache.NewShardedMap(cfg.Use)

		return beBackend{
			raw: m, wdr: m, dump: m.Dump, restore: m.Restore,
			read: func(ctx context.Context, k []byte) (interface{}, error) {
				v, err := m.Read(ctx, k)

				return unwrapVal(v), err
			},
			write:  func(ctx context.Context, k []byte, v Tok) error { return m.Write(ctx, k, wrapVal(rep, v)) },
			del:    m.Delete,
			expAll: m.ExpireAll, delAll: m.DeleteAll, length: m.Len, stop: m.VerifStop,
			walk: func(fn func(key []byte, v interface{}, exp time.Time) error) (int, error) {
				return m.Walk(func(en cache.Entry) error {
					zs.ReadAll(en, walkCopyLabel)
					return fn(en.Key(), unwrapVal(en.Value()), en.ExpireAt())
				})
			},
			load: func(k []byte) (interface{}, bool) {
				v, ok := m.Load(k)

				return unwrapVal(v), ok
			},
			store:       func(k []byte, v Tok) { m.Store(k, wrapVal(rep, v)) },
			expiredItem: unwrapExpired,
		}
	}
}

// walkCopyLabel: Entry's methods have value receivers, so calling them through the *TraitEntry a
// Walk callback is handed copies the whole entry (compiler-generated wrapper); the C16 detector is
// told about that read of every field (no-op unless the detector is on).
const walkCopyLabel = "harness|Walk-callback:Entry-method-copies-entry"

func plainExpired(err error) (interface{}, time.Time, bool) {
	var ee cache.ErrWithExpiredItem
	if errors.As(err, &ee) {
		return ee.Value(), ee.ExpiredAt(), true
	}

	return nil, time.Time{}, false
}

// beRun is the state of one BE run.
type beRun struct {
	e  *env
	sc *BEScenario
	bk beBackend

	recs  []*beRec
	stats []statRec
	logs  []logRec

	janitor    *zs.Task
	setupDump  []byte
	evictCalls int
	needCalls  []int64 // unix ns of each EvictionNeeded call
}

func (r *beRun) cacheConfig() cache.Config {
	c := r.sc.Cfg
	cfg := cache.Config{
		Name:                     "be",
		TimeToLive:               dur(c.TTLNs),
		ExpirationJitter:         c.Jitter,
		DeleteExpiredAfter:       dur(c.DeleteExpiredAfterNs),
		DeleteExpiredJobInterval: dur(c.JanitorIntervalNs),
		ItemsCountReportInterval: farFuture,
		CountSoftLimit:           c.CountSoftLimit,
		EvictFraction:            c.EvictFraction,
		EvictionStrategy:         cache.EvictionStrategy(c.Strategy),
		HeapInUseSoftLimit:       c.HeapLimit,
		SysMemSoftLimit:          c.SysLimit,
	}

	if c.ItemsReportNs > 0 {
		cfg.ItemsCountReportInterval = dur(c.ItemsReportNs)
	}

	if c.JanitorIntervalNs == 0 {
		cfg.DeleteExpiredJobInterval = farFuture
	}

	if c.LibDefaults {
		cfg.DeleteExpiredAfter, cfg.DeleteExpiredJobInterval = 0, 0
	}

	if c.EvictionNeeded != nil {
		cfg.EvictionNeeded = func() bool {
			i := r.evictCalls
			r.evictCalls++
			r.needCalls = append(r.needCalls, time.Now().UnixNano())

			if i < len(c.EvictionNeeded) {
				return c.EvictionNeeded[i]
			}

			return false
		}
	}

	if c.Stats {
		cfg.Stats = simStats{recs: &r.stats, s: func() *zs.Sim { return r.e.s }}
	}

	if c.Logger {
		cfg.Logger = shapeLogger(beLogger{r: r}, c.LogMask)
	}

	return cfg
}

type beLogger struct{ r *beRun }

func (l beLogger) rec(level, msg string, kv []interface{}) {
	zs.Yield("log." + level)
	renderLogArgs(kv)
	l.r.logs = append(l.r.logs, logRec{seq: l.r.e.s.NextSeq(), level: level, msg: msg})
}
func (l beLogger) Error(_ context.Context, msg string, kv ...interface{}) { l.rec("error", msg, kv) }
func (l beLogger) Debug(_ context.Context, msg string, kv ...interface{}) { l.rec("debug", msg, kv) }
func (l beLogger) Warn(_ context.Context, msg string, kv ...interface{})  { l.rec("warn", msg, kv) }
func (l beLogger) Important(_ context.Context, msg string, kv ...interface{}) {
	l.rec("important", msg, kv)
}

func (r *beRun) construct() {
	before := len(r.e.s.Tasks())
	r.bk = newBackendRep(r.sc.Backend, r.cacheConfig(), r.sc.ValRep)

	stopped := false
	stop := r.bk.stop
	r.bk.stop = func() {
		if !stopped {
			stopped = true
			stop()
		}
	}
	r.e.cleanup = append(r.e.cleanup, r.bk.stop)

	// The janitor is the last daemon spawned by the constructor (the items-count reporter,
	// if any, is started first).
	ts := r.e.s.Tasks()
	if len(ts) > before {
		r.janitor = ts[len(ts)-1]
	}
}

// exec runs one operation (from a client task or from the root) and records it.
func (r *beRun) exec(ci, oi int, op *BEOp) *beRec {
	e := r.e
	rec := &beRec{client: ci, idx: oi, op: op, kind: op.Kind}

	if op.Kind == "sleep" {
		e.out.fault("clock_jump")
		zs.Sleep(dur(op.SleepNs))

		return nil
	}

	var kb []byte

	if op.Key < len(r.sc.Keys) {
		rec.key = string(r.sc.Keys[op.Key])
		kb = []byte(rec.key)

		// The caller owns its key slice again as soon as the call has returned (bench re-uses key buffers):
		// whatever the backend kept of it instead of a copy turns into garbage.
		defer scribble(kb)
	}

	ctx := context.Background()
	if op.HasTTL {
		ctx = cache.WithTTL(ctx, dur(op.TTLNs), false)
	}

	if op.SkipRead {
		ctx = cache.WithSkipRead(ctx)
	}

	if op.CtxDone {
		c, cancel := context.WithCancel(ctx)
		cancel()

		ctx = c

		e.out.fault("ctx_cancelled_before_call")
	}

	rec.tok = Tok{K: rec.key, ID: fmt.Sprintf("w%d.%d", ci, oi)}
	if op.NilVal && r.sc.Backend != "shardedOf" {
		rec.tok = Tok{K: rec.key, ID: nilID}
	}

	r.recs = append(r.recs, rec)

	rec.inv = e.s.NextSeq()
	rec.invT = time.Now().UnixNano()
	e.logf("invoke %s %s(%q)%s", rec.id(), op.Kind, rec.key, beFlags(op))

	func() {
		defer func() {
			if p := recover(); p != nil {
				if zs.IsKilled(p) {
					panic(p)
				}

				rec.panicV = p
				e.out.violate(e.sc.Prop+".PANIC", fmt.Sprintf("%s: %v", op.Kind, p), "%s(%q) panicked: %v", op.Kind, rec.key, p)
			}
		}()

		switch op.Kind {
		case "write":
			rec.err = r.bk.write(ctx, kb, rec.tok)
		case "read":
			rec.val, rec.err = r.bk.read(ctx, kb)
			if rec.err != nil {
				var at time.Time

				rec.expVal, at, rec.expOK = r.bk.expiredItem(rec.err)
				rec.expAt = at.UnixNano()

				if rec.expOK {
					rec.expVal = nilTok(rec.key, rec.expVal)
				}
			} else {
				rec.val = nilTok(rec.key, rec.val)
			}
		case "delete":
			rec.err = r.bk.del(ctx, kb)
		case "expireAll":
			r.bk.expAll(ctx)
		case "deleteAll":
			r.bk.delAll(ctx)
		case "len":
			rec.n = r.bk.length()
		case "walk":
			rec.n, rec.walkErr = r.bk.walk(func(key []byte, v interface{}, exp time.Time) error {
				zs.Yield("walk.cb")
				rec.walk = append(rec.walk, walkEnt{key: string(key), val: nilTok(string(key), v), exp: exp.UnixNano(), seq: e.s.NextSeq()})

				// a slow consumer: the first callback takes SleepNs of simulated time (janitor cycles and other
				// clients run meanwhile)
				if op.SleepNs > 0 && len(rec.walk) == 1 {
					zs.Sleep(dur(op.SleepNs))
				}

				return nil
			})
		case "walkDel":
			// the callback deletes some of the entries it is shown (bit i of SleepNs: the i-th visited one):
			// the cache is used from inside its own Walk
			mask := uint64(op.SleepNs)
			rec.n, rec.walkErr = r.bk.walk(func(key []byte, v interface{}, exp time.Time) error {
				i := len(rec.walk)
				rec.walk = append(rec.walk, walkEnt{key: string(key), val: nilTok(string(key), v), exp: exp.UnixNano(), seq: e.s.NextSeq()})

				if mask>>(uint(i)%16)&1 == 1 {
					rec.walkDel = append(rec.walkDel, walkDelRec{key: string(key), err: r.bk.del(ctx, append([]byte(nil), key...))})
				}

				return nil
			})
			e.out.fault("walk_callback_reenters_cache")
		case "walkErr":
			// the callback fails at the (SleepNs+1)-th entry: Walk must stop, report the error and the
			// number of entries processed so far, and leave the cache usable
			limit := int(op.SleepNs)
			rec.n, rec.walkErr = r.bk.walk(func(key []byte, v interface{}, exp time.Time) error {
				if len(rec.walk) >= limit {
					return errWalkStop
				}

				rec.walk = append(rec.walk, walkEnt{key: string(key), val: v, exp: exp.UnixNano(), seq: e.s.NextSeq()})

				return nil
			})
			e.out.fault("walk_callback_err")
		case "dumpErr":
			// Dump into a writer that fails after SleepNs bytes
			fw := &failingWriter{left: int(op.SleepNs)}
			rec.n, rec.err = r.bk.dump(fw)
			e.out.fault("dump_writer_err")
		case "dump":
			// the destination consumes every Write progressively, with a scheduling point in the middle (a pipe, a
			// socket): whatever the slice it was given aliases must stay untouched until Write returns
			var buf progressiveBuffer

			rec.n, rec.err = r.bk.dump(&buf)
			rec.dump = buf.b
		case "restore":
			rec.n, rec.err = r.bk.restore(bytes.NewReader(r.setupDump))
		case "load":
			rec.val, rec.ok = r.bk.load(kb)
			if rec.ok {
				rec.val = nilTok(rec.key, rec.val)
			}
		case "store":
			r.bk.store(kb, rec.tok)
		}
	}()

	rec.ret = e.s.NextSeq()
	rec.retT = time.Now().UnixNano()
	rec.done = true

	if op.Mutate {
		for i := range kb {
			kb[i] ^= 0x5a
		}

		e.out.fault("mutate_key_after_return")
	}

	switch op.Kind {
	case "read", "load":
		e.logf("return %s %s(%q) -> %v, %v, %v", rec.id(), op.Kind, rec.key, rec.val, rec.ok, rec.err)
	case "len", "walk":
		e.logf("return %s %s -> %d", rec.id(), op.Kind, rec.n)
	default:
		e.logf("return %s %s(%q) -> %v", rec.id(), op.Kind, rec.key, rec.err)
	}

	return rec
}

type progressiveBuffer struct{ b []byte }

func (w *progressiveBuffer) Write(p []byte) (int, error) {
	const parts = 8

	for i := 0; i < parts; i++ {
		lo, hi := len(p)*i/parts, len(p)*(i+1)/parts
		w.b = append(w.b, p[lo:hi]...)

		if i < parts-1 {
			zs.YieldFine("dump.write")
		}
	}

	return len(p), nil
}

var errWalkStop = errors.New("walk callback failed (injected)")

type failingWriter struct{ left int }

func (w *failingWriter) Write(p []byte) (int, error) {
	if w.left <= 0 {
		return 0, errStream
	}

	if len(p) > w.left {
		n := w.left
		w.left = 0

		return n, errStream
	}

	w.left -= len(p)

	return len(p), nil
}

func beFlags(op *BEOp) string {
	s := ""
	if op.HasTTL {
		s += fmt.Sprintf(" ttl=%v", dur(op.TTLNs))
	}

	if op.SkipRead {
		s += " skipRead"
	}

	return s
}

func (r *beRun) spawnClients() {
	for ci := range r.sc.Clients {
		ci := ci

		r.e.s.Spawn(fmt.Sprintf("c%d", ci), func() {
			for oi := range r.sc.Clients[ci] {
				zs.Yield("op")
				r.exec(ci, oi, &r.sc.Clients[ci][oi])
			}
		})
	}
}

func init() { engines["be"] = runBE }

func runBE(e *env) {
	r := &beRun{e: e, sc: e.sc.BE}

	e.setup = true
	r.construct()
	e.setup = false

	ok := true

	switch r.sc.Mode {
	case "seq", "conc":
		for i := range r.sc.Root {
			r.rootSleep(1)
			r.exec(-1, i, &r.sc.Root[i])
		}

		if len(r.sc.Root) > 0 {
			var buf bytes.Buffer

			_, _ = r.bk.dump(&buf)
			r.setupDump = buf.Bytes()

			if !r.sc.KeepRoot {
				r.recs = nil
			}
		}

		r.spawnClients()
		// an operation that never returns has no result the reference model could agree with
		ok = e.runAll(e.sc.Prop + ".STUCK")
		e.checkPanics()
	default:
		if f := beModes[r.sc.Mode]; f != nil {
			f(r)
		} else {
			e.out.Internal = "unknown BE mode " + r.sc.Mode
		}
	}

	if ok && e.out.Internal == "" {
		if f := beOracles[e.sc.Prop]; f != nil {
			f(r)
		}
	}

	r.bk.stop()

	if v := e.s.Run(); v != zs.Quiescent && ok && e.out.Internal == "" && len(e.out.Violations) == 0 {
		e.out.Internal = "janitor did not stop: " + e.s.StuckInfo
	}

	e.s.SettleRoot()
}

var (
	beModes   = map[string]func(r *beRun){}
	beOracles = map[string]func(r *beRun){}
)

// effTTL is the effective TTL of a write by the documentation: the context TTL if non-zero,
// else the configured TimeToLive (default 5m); never=true for UnlimitedTTL without context TTL.
func (r *beRun) effTTL(op *BEOp) (ttl time.Duration, never bool) {
	if op.HasTTL && op.TTLNs != 0 && op.Kind == "write" {
		return dur(op.TTLNs), false
	}

	switch r.sc.Cfg.TTLNs {
	case 0:
		return 5 * time.Minute, false
	case -1:
		return 0, true
	}

	return dur(r.sc.Cfg.TTLNs), false
}

func (r *beRun) jitterFrac() float64 {
	switch {
	case r.sc.Cfg.Jitter < 0:
		return 0
	case r.sc.Cfg.Jitter == 0:
		return 0.1
	}

	return r.sc.Cfg.Jitter
}

// scribble overwrites a key buffer the harness handed to the library, after the call has returned.
func scribble(b []byte) {
	for i := range b {
		b[i] = 0xEE
	}
}
