package sim

import "math/rand/v2"

// BEScenario is the backend engine's part of a scenario (defined later).
type BEScenario struct{}

func genC18BE(r *rand.Rand, run int, tier string) *Scenario { return genC18(r, run-1, tier) }
