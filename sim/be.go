package sim

// BEScenario is the backend engine's part of a scenario (defined later).
type BEScenario struct{}
