package sim

import (
	"context"
	"encoding/binary"
	"encoding/json"
	"fmt"
	"math/rand/v2"
	"net/http"
	"net/http/httptest"
	"os"
	"path/filepath"
	"runtime"
	"strconv"
	"strings"
	"testing"
	"time"

	"github.com/bool64/cache"
	zs "github.com/bool64/cache/zzverifsim"
)

// gens maps a property id to its scenario generator.
var gens = map[string]func(r *rand.Rand, run int, tier string) *Scenario{}

// genSeed is VERIF_SEED of the run being generated (for generators that derive a family of runs
// from run/N and sweep a fault position with run%N).
var genSeed uint64

// genTier is the tier of the run being generated: the thorough tier widens scenario sizes.
var genTier string

// shrinkers maps an engine to its candidate generator: it yields simplified copies.
var shrinkers = map[string]func(sc *Scenario, yield func(c *Scenario) bool){}

// ReplayFile is the on-disk form of a minimised failing run.
type ReplayFile struct {
	Property string    `json:"property"`
	Rule     string    `json:"rule"`
	Sig      string    `json:"sig"`
	Detail   string    `json:"detail"`
	Seed     uint64    `json:"seed"`
	Run      int       `json:"run"`
	Scenario *Scenario `json:"scenario"`
	Hash     uint64    `json:"hash"`
	Trace    []string  `json:"trace"`
	Shrink   string    `json:"shrink,omitempty"`
	// GoArch: the platform the run was executed on when it is not the 64-bit default (a slice of the runs of
	// some properties is executed by a GOARCH=386 build of the simulator); the driver replays on the same one.
	GoArch string `json:"goarch,omitempty"`
}

// WorkerOut is what one worker process reports to the driver.
type WorkerOut struct {
	Prop          string         `json:"prop"`
	Worker        int            `json:"worker"`
	Runs          int            `json:"runs"`
	NonTrivial    int            `json:"nontrivial"`
	Steps         int64          `json:"steps"`
	SimS          float64        `json:"sim_s"`
	Probes        map[string]int `json:"probes"`
	Faults        map[string]int `json:"faults"`      // number of times each fault kind fired
	FaultRuns     map[string]int `json:"fault_runs"`  // number of runs in which each fault kind fired
	Outcomes      map[string]int `json:"outcomes"`    // outcome class -> runs
	Verdicts      map[string]int `json:"verdicts"`    // scheduler verdict -> runs
	SchedKinds    map[string]int `json:"sched_kinds"` // schedule source -> runs
	Inconclusive  int            `json:"inconclusive"`
	Violations    []FoundViol    `json:"violations"`
	Internal      []string       `json:"internal"`
	Samples       []Sample       `json:"samples"`
	WallS         float64        `json:"wall_s"`
	Extra         map[string]int `json:"extra,omitempty"`
	ExhaustiveAll bool           `json:"exhaustive_all,omitempty"`
}

// FoundViol is a violation class found by a worker.
type FoundViol struct {
	Rule   string `json:"rule"`
	Sig    string `json:"sig"`
	Detail string `json:"detail"`
	Replay string `json:"replay"`
	Run    int    `json:"run"`
	Count  int    `json:"count"`
}

// Sample is a complete explored case written into the evidence.
type Sample struct {
	Scenario *Scenario `json:"scenario"`
	Outcome  string    `json:"outcome"`
	Steps    int       `json:"steps"`
	Trace    []string  `json:"trace,omitempty"`
}

func envInt(name string, def int) int {
	if v := os.Getenv(name); v != "" {
		if n, err := strconv.Atoi(v); err == nil {
			return n
		}
	}

	return def
}

func cloneScenario(sc *Scenario) *Scenario {
	b, err := json.Marshal(sc)
	if err != nil {
		panic(err)
	}

	var c Scenario
	if err := json.Unmarshal(b, &c); err != nil {
		panic(err)
	}

	return &c
}

func generate(prop string, seed uint64, run int, tier string) *Scenario {
	g := gens[prop]
	if g == nil {
		return nil
	}

	r := newRng(seed, uint64(run), 1)
	genSeed = seed
	genTier = tier
	sc := g(r, run, tier)

	if sc == nil {
		return nil
	}

	sc.Prop = prop
	sc.Seed = seed
	sc.Run = run

	// swarm knob shared by all generators: the shape of the logger (full, Error-only, NewLogger
	// with some levels nil), drawn from a generator of its own so that the scenario streams do not shift
	lr := newRng(seed, uint64(run), 7)
	mask := pick(lr, 0, 0, 16, 1+lr.IntN(15))

	if sc.FO != nil && sc.FO.Cfg.Logger {
		sc.FO.Cfg.LogMask = mask

		if prop == "C04" && run%8 == 3 && mask != 0 && mask&8 == 0 {
			sc.FO.Cfg.LogMask = 0 // the waiters family needs the debug level
		}
	}

	if sc.BE != nil && sc.BE.Cfg.Logger {
		sc.BE.Cfg.LogMask = mask
	}

	if sc.TR != nil && sc.TR.Mode == "http" && chance(lr, 0.4) {
		sc.TR.Logger, sc.TR.LogMask = true, mask
	}

	// a side actor that calls ExpireAll on the backend while Gets are in flight: only for the properties
	// whose oracles do not reason about freshness
	if sc.FO != nil && !sc.FO.DefaultBackend && len(sc.FO.Clients) > 0 && chance(lr, 0.2) {
		switch prop {
		case "C01", "C02", "C04", "C09", "C16":
			c := lr.IntN(len(sc.FO.Clients))
			at := lr.IntN(len(sc.FO.Clients[c]) + 1)
			ops := append([]FOOp(nil), sc.FO.Clients[c][:at]...)
			side := FOOp{Kind: "expireAll"}
			if n := len(sc.FO.Keys); n > 0 {
				side = FOOp{Kind: pick(lr, "expireAll", "expireAll", "sideWrite", "sideDelete"), Key: lr.IntN(n)}
			}

			ops = append(ops, side)
			sc.FO.Clients[c] = append(ops, sc.FO.Clients[c][at:]...)
		}
	}

	// what failing builders' errors wrap (same separate generator)
	if sc.FO != nil {
		if prop != "C03" { // a dimension of C03's table
			sc.FO.WrapBackendErrs = !sc.FO.DefaultBackend && chance(lr, 0.2)
		}

		for c := range sc.FO.Clients {
			for i := range sc.FO.Clients[c] {
				op := &sc.FO.Clients[c][i]
				if op.BuildFail && chance(lr, 0.3) {
					op.BuildErrKind = pick(lr, "canceled", "deadline", "notfound", "expired")
				}

				// a builder whose legitimate result is a nil interface (untyped APIs)
				if op.Kind == "get" && !op.BuildFail && !op.BuildEqual && sc.FO.API != "failoverOf" && prop != "C03" && chance(lr, 0.06) {
					op.BuildNil = true
				}

				// builders that need another cached value: nesting only towards higher key indices, so that
				// the workload itself cannot deadlock
				if nk := len(sc.FO.Keys); op.Kind == "get" && op.Key < nk-1 && chance(lr, 0.08) {
					op.NestKey = op.Key + 2 + lr.IntN(nk-1-op.Key)
				}
			}
		}

		// C03: a backend that reports expired entries without the expired item
		if prop == "C03" && len(sc.FO.Init) > 0 && sc.FO.Init[0].State == "stale" && !sc.FO.DefaultBackend && chance(lr, 0.15) {
			sc.FO.PlainExpired = true
		}

		// C02: the same kind of backend under concurrent Gets (whatever happens, nothing may be fabricated)
		if prop == "C02" && !sc.FO.DefaultBackend && chance(lr, 0.1) {
			sc.FO.PlainExpired = true
		}

		// C03: an ExpireAll (invalidation) right before the Get; only for entries that are expired already, whose
		// state it must not change
		if prop == "C03" && len(sc.FO.Init) > 0 && sc.FO.Init[0].State == "stale" && !sc.FO.DefaultBackend && chance(lr, 0.15) {
			sc.FO.ExpireAllFirst = true
		}

		// mutability observation switched on without a stats tracker (nothing to report the observation to)
		if !sc.FO.Cfg.Stats && chance(lr, 0.08) {
			sc.FO.Cfg.ObserveMutability = true
		}
	}

	return sc
}

func findViolation(out *RunOut, sig string) *Violation {
	for i := range out.Violations {
		if out.Violations[i].Signature() == sig {
			return &out.Violations[i]
		}
	}

	return nil
}

// pinSchedule converts whatever schedule source the scenario used into the recorded choices.
func pinSchedule(sc *Scenario, out *RunOut) *Scenario {
	c := cloneScenario(sc)
	c.Sched = SchedSpec{Kind: "replay", Choices: append([]int(nil), out.Choices...)}

	return c
}

// shrink minimises a failing scenario while the same violation signature recurs.
func shrink(t *testing.T, sc *Scenario, sig string, budget time.Duration) (*Scenario, string) {
	deadline := time.Now().Add(budget)
	cur := sc
	tried, accepted := 0, 0

	try := func(c *Scenario) bool {
		if time.Now().After(deadline) {
			return false
		}

		tried++

		out := execute(t, c, false)
		if out.Internal != "" || findViolation(out, sig) == nil {
			return false
		}

		if c.Sched.Kind == "replay" {
			cur = c
		} else {
			cur = pinSchedule(c, out)
		}

		accepted++

		if os.Getenv("VERIF_SHRINK_DEBUG") != "" && accepted < 60 {
			fmt.Println("ACCEPT", jsonStr(cur))
		}

		return true
	}

	for pass := 0; pass < 12 && time.Now().Before(deadline); pass++ {
		progress := false

		// Engine-specific simplifications.
		if sh := shrinkers[cur.Engine]; sh != nil {
			for again := true; again && time.Now().Before(deadline); {
				again = false

				sh(cur, func(c *Scenario) bool {
					ok := try(c)

					// The recorded schedule may not fit the simpler scenario: search a few
					// fresh schedules for it.
					for i := 0; !ok && i < 6 && len(c.Sched.Choices) > 0; i++ {
						c2 := cloneScenario(c)
						c2.Sched = SchedSpec{Kind: pick(newRng(uint64(i)), "random", "pct", "seq"), Seed: uint64(i), Depth: 2, Horizon: 40}
						ok = try(c2)
					}

					if ok {
						again, progress = true, true

						return false // restart enumeration from the new current
					}

					return time.Now().Before(deadline)
				})
			}
		}

		// Schedule simplifications: truncate, zero out choices.
		ch := cur.Sched.Choices
		for n := len(ch) / 2; n >= 1 && time.Now().Before(deadline); n /= 2 {
			for len(cur.Sched.Choices) >= n {
				c := cloneScenario(cur)
				c.Sched.Choices = c.Sched.Choices[:len(c.Sched.Choices)-n]

				if !try(c) {
					break
				}

				progress = true
			}
		}

		for i := 0; i < len(cur.Sched.Choices) && time.Now().Before(deadline); i++ {
			if cur.Sched.Choices[i] == 0 {
				continue
			}

			c := cloneScenario(cur)
			c.Sched.Choices[i] = 0

			if try(c) {
				progress = true
			}
		}

		if cur.TickNs != 100 {
			c := cloneScenario(cur)
			c.TickNs = 100

			if try(c) {
				progress = true
			}
		}

		if !progress {
			break
		}
	}

	return cur, fmt.Sprintf("tried=%d accepted=%d", tried, accepted)
}

func writeReplay(t *testing.T, dir string, sc *Scenario, v *Violation, note string) (string, error) {
	out := execute(t, sc, true)

	vv := findViolation(out, v.Signature())
	if vv == nil {
		return "", fmt.Errorf("minimised scenario does not reproduce %s", v.Signature())
	}

	rf := ReplayFile{
		Property: sc.Prop, Rule: vv.Rule, Sig: vv.Sig, Detail: vv.Detail, Seed: sc.Seed, Run: sc.Run,
		Scenario: pinSchedule(sc, out), Hash: out.Hash, Trace: out.Trace, Shrink: note,
	}

	if runtime.GOARCH != "amd64" {
		rf.GoArch = runtime.GOARCH
	}

	if err := os.MkdirAll(dir, 0o755); err != nil {
		return "", err
	}

	name := fmt.Sprintf("%s-%d-%d-%x.json", strings.ReplaceAll(vv.Rule, ".", "_"), sc.Seed, sc.Run, zs.HashString(vv.Sig)&0xffff)
	if rf.GoArch != "" {
		name = strings.TrimSuffix(name, ".json") + "-" + rf.GoArch + ".json"
	}

	path := filepath.Join(dir, name)

	b, _ := json.MarshalIndent(rf, "", " ")

	return path, os.WriteFile(path, b, 0o644)
}

// TestSim is the worker entry point; everything is configured through the environment.
func TestSim(t *testing.T) {
	prop := os.Getenv("VERIF_PROP")
	if prop == "" {
		t.Skip("VERIF_PROP not set")
	}

	if rp := os.Getenv("VERIF_REPLAY"); rp != "" {
		replayMain(t, rp)

		return
	}

	seed := uint64(envInt("VERIF_SEED", 1))
	worker := envInt("VERIF_WORKER", 0)
	workers := envInt("VERIF_WORKERS", 1)
	maxRuns := envInt("VERIF_RUNS", 1000)
	budgetS := envInt("VERIF_BUDGET_S", 0)
	tier := os.Getenv("VERIF_TIER")
	outPath := os.Getenv("VERIF_OUT")
	replayDir := os.Getenv("VERIF_REPLAY_DIR")
	maxViol := envInt("VERIF_MAX_VIOL", 4)
	wantSamples := envInt("VERIF_SAMPLES", 2)
	shrinkS := envInt("VERIF_SHRINK_S", 40)

	if tier == "" {
		tier = "quick"
	}

	if dr := os.Getenv("VERIF_DUMP_RUN"); dr != "" {
		n, _ := strconv.Atoi(dr)
		sc := generate(prop, seed, n, tier)
		out := execute(t, sc, true)

		for _, ln := range out.Trace {
			fmt.Println(ln)
		}

		fmt.Printf("HASH %x SIG %x internal=%q\n", out.Hash, out.SchedSig, out.Internal)

		return
	}

	if gens[prop] == nil {
		fmt.Printf("INTERNAL no generator for property %s\n", prop)
		t.Fatalf("no generator for property %s", prop)
	}

	wo := &WorkerOut{
		Prop: prop, Worker: worker, Probes: map[string]int{}, Faults: map[string]int{}, FaultRuns: map[string]int{},
		Outcomes: map[string]int{}, Verdicts: map[string]int{}, SchedKinds: map[string]int{}, Extra: map[string]int{},
	}

	start := time.Now()

	var sigs []byte

	var hashLog *os.File

	if hl := os.Getenv("VERIF_HASHLOG"); hl != "" {
		var err error

		if hashLog, err = os.Create(hl); err != nil {
			t.Fatal(err)
		}

		defer hashLog.Close()
	}

	found := map[string]*FoundViol{}

	for run := worker; run < maxRuns; run += workers {
		if budgetS > 0 && time.Since(start) > time.Duration(budgetS)*time.Second {
			break
		}

		sc := generate(prop, seed, run, tier)
		if sc == nil {
			wo.ExhaustiveAll = true

			break // enumerating generator exhausted
		}

		trace := len(wo.Samples) < wantSamples && worker == 0
		out := execute(t, sc, trace)

		if hashLog != nil {
			fmt.Fprintf(hashLog, "%d %x %x %d %d\n", run, out.Hash, out.SchedSig, out.Steps, len(out.Violations))
		}

		wo.Runs++
		wo.Steps += int64(out.Steps)
		wo.SimS += float64(out.SimNs) / 1e9
		wo.Verdicts[out.Verdict]++
		wo.SchedKinds[sc.Sched.Kind]++
		wo.Inconclusive += out.Inconcl

		for k, v := range out.Probes {
			wo.Probes[k] += v
		}

		for k, v := range out.Faults {
			wo.Faults[k] += v
			wo.FaultRuns[k]++
		}

		if out.Outcome != "" {
			wo.Outcomes[out.Outcome]++
		}

		if out.Internal != "" {
			if len(wo.Internal) < 5 {
				wo.Internal = append(wo.Internal, fmt.Sprintf("run %d: %s", run, out.Internal))
			}

			continue
		}

		if out.NonTrivial {
			wo.NonTrivial++

			var b [8]byte

			binary.LittleEndian.PutUint64(b[:], out.SchedSig^zs.HashString(jsonStr(sc.FO), jsonStr(sc.BE), jsonStr(sc.TR)))
			sigs = append(sigs, b[:]...)
		}

		if trace && out.NonTrivial && len(out.Violations) == 0 {
			tr := out.Trace
			if len(tr) > 120 {
				tr = append(append([]string(nil), tr[:120]...), fmt.Sprintf("... %d more lines", len(out.Trace)-120))
			}

			wo.Samples = append(wo.Samples, Sample{Scenario: pinSchedule(sc, out), Outcome: out.Outcome, Steps: out.Steps, Trace: tr})
		}

		for i := range out.Violations {
			v := out.Violations[i]
			if fv := found[v.Signature()]; fv != nil {
				fv.Count++

				continue
			}

			fv := &FoundViol{Rule: v.Rule, Sig: v.Sig, Detail: v.Detail, Run: run, Count: 1}
			found[v.Signature()] = fv

			min, note := shrink(t, pinSchedule(sc, out), v.Signature(), time.Duration(shrinkS)*time.Second)

			path, err := writeReplay(t, replayDir, min, &v, note)
			if err != nil {
				// Fall back to the unshrunk scenario.
				path, err = writeReplay(t, replayDir, pinSchedule(sc, out), &v, "unshrunk: "+err.Error())
			}

			if err != nil {
				wo.Internal = append(wo.Internal, fmt.Sprintf("run %d: violation %s does not replay: %v", run, v.Signature(), err))
			}

			fv.Replay = path
		}

		if len(found) >= maxViol {
			break
		}
	}

	for _, fv := range found {
		wo.Violations = append(wo.Violations, *fv)
	}

	wo.WallS = time.Since(start).Seconds()

	if outPath != "" {
		b, _ := json.Marshal(wo)
		if err := os.WriteFile(outPath, b, 0o644); err != nil {
			t.Fatal(err)
		}

		if err := os.WriteFile(outPath+".sigs", sigs, 0o644); err != nil {
			t.Fatal(err)
		}
	}
}

func replayMain(t *testing.T, path string) {
	b, err := os.ReadFile(path)
	if err != nil {
		fmt.Printf("INTERNAL cannot read replay file: %v\n", err)
		t.Fatal(err)
	}

	var rf ReplayFile
	if err := json.Unmarshal(b, &rf); err != nil {
		fmt.Printf("INTERNAL cannot parse replay file: %v\n", err)
		t.Fatal(err)
	}

	out := execute(t, rf.Scenario, true)

	for _, ln := range out.Trace {
		fmt.Println(ln)
	}

	if out.Internal != "" {
		fmt.Printf("INTERNAL %s\n", out.Internal)

		return
	}

	v := findViolation(out, rf.Rule+" "+rf.Sig)

	switch {
	case v != nil && out.Hash == rf.Hash:
		fmt.Printf("REPRODUCED rule=%s sig=%q hash=%x\n%s\n", v.Rule, v.Sig, out.Hash, v.Detail)
	case v != nil:
		fmt.Printf("REPRODUCED-DIFFERENT-TRACE rule=%s sig=%q hash=%x want=%x\n%s\n", v.Rule, v.Sig, out.Hash, rf.Hash, v.Detail)
	default:
		fmt.Printf("NOT-REPRODUCED rule=%s sig=%q (violations now: %d) hash=%x want=%x\n", rf.Rule, rf.Sig, len(out.Violations), out.Hash, rf.Hash)

		for _, x := range out.Violations {
			fmt.Printf("OTHER %s: %s\n", x.Signature(), x.Detail)
		}
	}
}

// handlerTransport feeds requests straight into an http.Handler (no sockets).
type handlerTransport struct{ h http.Handler }

func (t handlerTransport) RoundTrip(req *http.Request) (*http.Response, error) {
	rec := httptest.NewRecorder()
	t.h.ServeHTTP(rec, req)

	return rec.Result(), nil
}

// TestZeroHashHelper (fresh OS process): with a types hash of 0 on both sides, Import through Export must
// transfer caches whose values need no gob registration.
func TestZeroHashHelper(t *testing.T) {
	if os.Getenv("VERIF_ZERO_HASH") == "" {
		t.Skip()
	}

	cache.GobTypesHashReset()

	if h := cache.GobTypesHash(); h != 0 {
		fmt.Printf("ZEROHASH=hash is %d after reset\n", h)

		return
	}

	ctx := context.Background()
	cfg := cache.Config{TimeToLive: time.Hour}
	exp, imp := &cache.HTTPTransfer{}, &cache.HTTPTransfer{}

	s1, d1 := cache.NewShardedMap(cfg.Use), cache.NewShardedMap(cfg.Use)
	s2, d2 := cache.NewSyncMap(cfg.Use), cache.NewSyncMap(cfg.Use)
	s3, d3 := cache.NewShardedMapOf[int](cfg.Use), cache.NewShardedMapOf[int](cfg.Use)

	for i := 0; i < 5; i++ {
		k := []byte(fmt.Sprintf("k%d", i))
		_ = s1.Write(ctx, k, i)
		_ = s2.Write(ctx, k, fmt.Sprintf("v%d", i))
		_ = s3.Write(ctx, k, i)
	}

	exp.AddCache("one", s1)
	exp.AddCache("two", s2)
	exp.AddCache("three", s3.WalkDumpRestorer())
	imp.AddCache("one", d1)
	imp.AddCache("two", d2)
	imp.AddCache("three", d3.WalkDumpRestorer())
	imp.Transport = handlerTransport{h: exp.Export()}

	if err := imp.Import(ctx, "http://exporter/dump"); err != nil {
		fmt.Printf("ZEROHASH=Import failed: %v\n", err)

		return
	}

	if d1.Len() != 5 || d2.Len() != 5 || d3.Len() != 5 {
		fmt.Printf("ZEROHASH=imported %d, %d and %d of 5 entries per cache\n", d1.Len(), d2.Len(), d3.Len())

		return
	}

	fmt.Println("ZEROHASH=ok")
}

// TestHashHelper registers the pool members named in VERIF_HASH_ORDER and prints the hash. The
// order is a sequence of groups separated by '|': every group is one variadic GobRegister call, the group "R"
// is a call of GobTypesHashReset (the hash starts over: what counts is what is registered afterwards).
func TestHashHelper(t *testing.T) {
	order := os.Getenv("VERIF_HASH_ORDER")
	if order == "" {
		t.Skip()
	}

	for _, grp := range strings.Split(order, "|") {
		if grp == "R" {
			cache.GobTypesHashReset()
			// the harness's own value types belong to the registered set of every helper process (package
			// init): an application that starts over registers what it needs again
			cache.GobRegister(GV{}, GW{}, &GVInner{}, Tok{})
			cache.GobRegister(sliceVal{}, mapVal{}, boxVal{})

			continue
		}

		var vals []interface{}

		for _, c := range grp {
			vals = append(vals, hashPool[int(c-'0')])
		}

		cache.GobRegister(vals...)
	}

	fmt.Printf("TYPESHASH=%d\n", cache.GobTypesHash())
}
