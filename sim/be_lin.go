package sim

import (
	"fmt"
	"github.com/cespare/xxhash/v2"
	"math"
	"math/rand/v2"
	"sort"
	"strings"
	"time"

	"github.com/anishathalye/porcupine"
)

// C08: per-key linearizability of the backends under concurrent use, decided by porcupine over
// the recorded history (event sequence numbers as call/return stamps) against a small
// nondeterministic model.

const (
	lWrite = iota
	lRead
	lLoad
	lDelete
	lExpire
	lDeleteAll
	lCleanup
	lEvict
)

var linNames = []string{"write", "read", "load", "delete", "expire", "deleteAll", "cleanup", "evict"}

type linIn struct {
	op      int
	slot    int // index of the key inside its partition
	tok     string
	expired bool // write: entry is born expired
	hashed  bool // backend indexes by hash: a write may displace colliding keys
}

type linOut struct {
	kind string // nil notfound fresh expired ok miss
	tok  string
}

// state: one rune triple per slot: "-" absent, or "F<tok>" / "E<tok>", joined by "|".
func linState(slots []string) string { return strings.Join(slots, "|") }

func linStep(state, input, output interface{}) []interface{} {
	slots := strings.Split(state.(string), "|")
	in := input.(linIn)
	o := output.(linOut)
	cur := slots[in.slot]
	present := cur != "-"

	with := func(s string) string {
		c := append([]string(nil), slots...)
		c[in.slot] = s

		return linState(c)
	}

	switch in.op {
	case lWrite:
		v := "F" + in.tok
		if in.expired {
			v = "E" + in.tok
		}

		base := append([]string(nil), slots...)
		base[in.slot] = v

		var others []int

		if in.hashed {
			for i, s := range base {
				if i != in.slot && s != "-" {
					others = append(others, i)
				}
			}
		}

		// a colliding write may cost other keys of the same hash a cache miss
		var res []interface{}

		for mask := 0; mask < 1<<len(others); mask++ {
			c := append([]string(nil), base...)

			for b, i := range others {
				if mask&(1<<b) != 0 {
					c[i] = "-"
				}
			}

			res = append(res, linState(c))
		}

		return res
	case lRead:
		switch {
		case !present:
			if o.kind == "notfound" {
				return []interface{}{state}
			}
		case cur[0] == 'F':
			if o.kind == "fresh" && o.tok == cur[1:] {
				return []interface{}{state}
			}
		default:
			if o.kind == "expired" && o.tok == cur[1:] {
				return []interface{}{state}
			}
		}

		return nil
	case lLoad:
		if present && cur[0] == 'F' {
			if o.kind == "ok" && o.tok == cur[1:] {
				return []interface{}{state}
			}

			return nil
		}

		if o.kind == "miss" {
			return []interface{}{state}
		}

		return nil
	case lDelete:
		if present && o.kind == "nil" {
			return []interface{}{with("-")}
		}

		if !present && o.kind == "notfound" {
			return []interface{}{state}
		}

		return nil
	case lExpire:
		if present {
			return []interface{}{with("E" + cur[1:])}
		}

		return []interface{}{state}
	case lDeleteAll:
		return []interface{}{with("-")}
	case lCleanup:
		if present && (cur[0] == 'E' || in.expired) {
			// in.expired on a cleanup pseudo-operation = relaxed model used only to classify a
			// failure: cleanup may remove a fresh entry too
			return []interface{}{state, with("-")}
		}

		return []interface{}{state}
	case lEvict:
		if present {
			return []interface{}{state, with("-")}
		}

		return []interface{}{state}
	}

	return nil
}

func init() {
	gens["C08"] = genC08
	beOracles["C08"] = (*beRun).oracleC08
}

// genJanitorRace: born-expired keys that the janitor is about to delete are rewritten as fresh
// by clients that wake up while the cleanup cycle is walking the shards (fast path off, so the
// clock ticks at every janitor yield and the clients' timers fire mid-cycle).
func genJanitorRace(r *rand.Rand) *Scenario {
	sc := genBEBase(r, "conc")
	be := sc.BE
	sc.NoFastPath = true
	sc.TickNs = pick(r, int64(100), 100, 1000)
	iv := pick(r, ms, 5*ms)
	be.Cfg = BEConfig{TTLNs: 3600 * sec, Jitter: -1, Strategy: r.IntN(3), JanitorIntervalNs: iv, DeleteExpiredAfterNs: ms}
	be.Keys, be.Groups = genKeys(r, 4, 0)

	for k := range be.Keys {
		be.Root = append(be.Root, BEOp{Kind: "write", Key: k, HasTTL: true, TTLNs: -3600 * sec})
	}

	// a cycle over 128 shards takes about 128*4 yields
	span := 520 * sc.TickNs
	nc := 1 + r.IntN(4)

	for c := 0; c < nc; c++ {
		k := r.IntN(len(be.Keys))
		be.Clients = append(be.Clients, []BEOp{
			{Kind: "sleep", SleepNs: iv - 5*sc.TickNs + r.Int64N(span)},
			{Kind: "write", Key: k},
			{Kind: "read", Key: k},
		})
	}

	sc.Sched = genSched(r, 600)

	return sc
}

// genExpireAllOverlap: 2-6 clients call ExpireAll at about the same time on 2-6 entries (fresh for long, or without
// expiry) that the root wrote before, and nothing else happens. Each call stamps what is still fresh with its own
// start time and leaves what has expired alone, so whatever the interleaving every entry ends up with the start time
// of the earliest call.
func genExpireAllOverlap(r *rand.Rand) *Scenario {
	sc := genBEBase(r, "conc")
	be := sc.BE
	be.OverlapExpire = true
	sc.NoFastPath = true
	be.Cfg = BEConfig{TTLNs: pick(r, int64(-1), 3600*sec), Jitter: -1, Strategy: r.IntN(3)}
	be.Keys, be.Groups = genKeys(r, 2+r.IntN(5), 0)

	for k := range be.Keys {
		op := BEOp{Kind: "write", Key: k}
		if chance(r, 0.5) {
			op.HasTTL, op.TTLNs = true, pick(r, 3600*sec, 24*3600*sec)
		}

		be.Root = append(be.Root, op)
	}

	nc := 2 + r.IntN(5)
	for c := 0; c < nc; c++ {
		ops := []BEOp{{Kind: "expireAll"}}
		if chance(r, 0.4) {
			ops = []BEOp{{Kind: "sleep", SleepNs: int64(1+r.IntN(40)) * sc.TickNs}, {Kind: "expireAll"}}
		}

		be.Clients = append(be.Clients, ops)
	}

	sc.Sched = genSched(r, 300)

	return sc
}

// genHotShard: one shard of a sharded map holds 70-100 entries, most of them expired long enough to be purged
// by the next cleanup cycle (size thresholds of per-shard maintenance are reached); a Walk whose first callback
// is slow lets a cycle and other clients' deletes and overwrites happen in the middle of its pass over that
// shard, then goes on.
func genHotShard(r *rand.Rand) *Scenario {
	sc := genBEBase(r, "conc")
	be := sc.BE
	be.Backend = pick(r, "sharded", "shardedOf")
	be.ValRep = ""
	be.KeepRoot = true
	sc.NoFastPath = chance(r, 0.3)
	sc.TickNs = 1000
	be.Cfg = BEConfig{TTLNs: 3600 * sec, Jitter: -1, Strategy: r.IntN(3), JanitorIntervalNs: ms, DeleteExpiredAfterNs: ms}

	shard := uint64(r.IntN(128))
	n := 70 + r.IntN(31)
	fresh := 4 + r.IntN(8)

	for i := 0; len(be.Keys) < n; i++ {
		k := []byte(fmt.Sprintf("hot-%d-%d", shard, i))
		if xxhash.Sum64(k)%128 != shard {
			continue
		}

		be.Keys = append(be.Keys, k)
		be.Groups = append(be.Groups, -1)

		op := BEOp{Kind: "write", Key: len(be.Keys) - 1}
		if len(be.Keys) > fresh {
			op.HasTTL, op.TTLNs = true, -3600*sec
		}

		be.Root = append(be.Root, op)
	}

	// the walker: its first callback takes 3-6 ms (3-6 cleanup cycles)
	be.Clients = append(be.Clients, []BEOp{{Kind: "walk", SleepNs: pick(r, 3*ms, 6*ms)}})

	// other clients delete and overwrite fresh keys while the walker is parked in its callback
	nc := 1 + r.IntN(2)
	for c := 0; c < nc; c++ {
		ops := []BEOp{{Kind: "sleep", SleepNs: pick(r, ms+ms/2, 2*ms)}}

		for i := 0; i < 2+r.IntN(4); i++ {
			ops = append(ops, BEOp{Kind: pick(r, "delete", "delete", "write"), Key: r.IntN(fresh)})
		}

		be.Clients = append(be.Clients, ops)
	}

	sc.Sched = genSched(r, 400)

	return sc
}

func genC08(r *rand.Rand, run int, _ string) *Scenario {
	if run%8 == 7 {
		return genJanitorRace(r)
	}

	if run%40 == 13 {
		return genHotShard(r)
	}

	if run%40 == 27 || run%40 == 33 {
		return genExpireAllOverlap(r)
	}

	sc := genBEBase(r, "conc")
	be := sc.BE
	be.Cfg = BEConfig{TTLNs: 3600 * sec, Jitter: pick(r, -1.0, 0), Strategy: r.IntN(3), Stats: chance(r, 0.15), Logger: chance(r, 0.1)}

	if be.Cfg.Stats && chance(r, 0.5) {
		be.Cfg.ItemsReportNs = pick(r, ms, 5*ms) // the items-count reporter goroutine runs alongside (Len + gauge)
	}

	if chance(r, 0.5) {
		be.Cfg.JanitorIntervalNs = pick(r, ms, 5*ms, 20*ms)
		be.Cfg.DeleteExpiredAfterNs = pick(r, ms, 50*ms)

		if chance(r, 0.6) {
			be.Cfg.CountSoftLimit = uint64(1 + r.IntN(3))
			be.Cfg.EvictFraction = pick(r, 0.3, 0.5, 1)
		}

		if chance(r, 0.3) {
			be.Cfg.EvictionNeeded = []bool{chance(r, 0.5), true, chance(r, 0.5), true, false, true}
		}
	}

	coll := 0
	if chance(r, 0.4) {
		coll = 2 + r.IntN(2)
	}

	be.Keys, be.Groups = genKeys(r, 2, coll)
	if len(be.Keys) > 4 {
		be.Keys, be.Groups = be.Keys[len(be.Keys)-4:], be.Groups[len(be.Groups)-4:]
	}

	nc := 2 + pick(r, 0, 0, 1, 1, 2, r.IntN(15))
	nk := len(be.Keys)

	for c := 0; c < nc; c++ {
		n := 1 + r.IntN(5)
		if nc > 8 {
			n = 1 + r.IntN(3)
		}

		var ops []BEOp

		for i := 0; i < n; i++ {
			k := r.IntN(nk)

			x := r.IntN(100)
			if be.Cfg.JanitorIntervalNs > 0 && i == 1 && chance(r, 0.5) {
				x = 95 // a sleep early in the sequence
			}

			switch {
			case x < 30:
				op := BEOp{Kind: "write", Key: k}
				if chance(r, 0.3) {
					op.HasTTL, op.TTLNs = true, -3600*sec // born expired
				}

				ops = append(ops, op)
			case x < 55:
				ops = append(ops, BEOp{Kind: "read", Key: k})
			case x < 68:
				ops = append(ops, BEOp{Kind: "delete", Key: k})
			case x < 73:
				ops = append(ops, BEOp{Kind: "expireAll"})
			case x < 76:
				ops = append(ops, BEOp{Kind: "deleteAll"})
			case x < 82:
				ops = append(ops, BEOp{Kind: "walk"})
			case x < 86:
				ops = append(ops, BEOp{Kind: "load", Key: k})
			case x < 90:
				ops = append(ops, BEOp{Kind: "store", Key: k})
			default:
				if iv := be.Cfg.JanitorIntervalNs; iv > 0 {
					// wake up just before the janitor's timer fires, so that its cycle starts
					// while this client is in the middle of its next operations
					ops = append(ops, BEOp{Kind: "sleep", SleepNs: pick(r, iv-2000, iv-700, iv-300, iv-100, iv-20, iv, 2*iv-500)})
				} else {
					ops = append(ops, BEOp{Kind: "sleep", SleepNs: pick(r, ms/2, ms, 3*ms, 10*ms)})
				}
			}
		}

		be.Clients = append(be.Clients, ops)
	}

	// an observer that looks at every key after everybody else is done (an update lost by a race that no
	// client happened to read back still shows), in half of the runs
	if chance(r, 0.5) {
		late := 2 * ms
		if iv := be.Cfg.JanitorIntervalNs; iv > 0 {
			late = 5 * iv // the other clients sleep up to two intervals
		}

		ops := []BEOp{{Kind: "sleep", SleepNs: late}}

		for k := range be.Keys {
			ops = append(ops, BEOp{Kind: "read", Key: k})
		}

		ops = append(ops, BEOp{Kind: "walk"}, BEOp{Kind: "len"})
		be.Clients = append(be.Clients, ops)
	}

	sc.Sched = genSched(r, 30+nc*25)

	return sc
}

type cycleRec struct{ call, ret uint64 }

func (r *beRun) oracleC08() {
	if r.sc.OverlapExpire {
		r.overlapExpireRule()
	}

	e := r.e
	out := e.out
	sc := r.sc
	hashed := sc.Backend != "syncmap"

	// partitions: collision groups (hash-keyed backends) or single keys
	part := map[string]int{} // key -> partition id
	slot := map[string]int{} // key -> slot in partition
	nslots := map[int]int{}

	for i, k := range sc.Keys {
		p := 1000 + i
		if hashed && i < len(sc.Groups) && sc.Groups[i] >= 0 {
			p = sc.Groups[i]
		}

		part[string(k)] = p
		slot[string(k)] = nslots[p]
		nslots[p]++
	}

	// janitor cycles
	var cycles []cycleRec

	if r.janitor != nil {
		for i, w := range r.janitor.WakeSeqs {
			if i+1 < len(r.janitor.BlockSeqs) {
				cycles = append(cycles, cycleRec{call: w, ret: r.janitor.BlockSeqs[i+1]})
			}
		}
	}

	evictPossible := sc.Cfg.CountSoftLimit > 0 || sc.Cfg.EvictionNeeded != nil

	ops := map[int][]porcupine.Operation{}
	add := func(p int, client int, in linIn, o linOut, call, ret uint64) {
		ops[p] = append(ops[p], porcupine.Operation{ClientId: client, Input: in, Output: o, Call: int64(call), Return: int64(ret)})
	}

	overlapSameKey := false

	for _, rec := range r.recs {
		if !rec.done {
			continue
		}

		p, s := part[rec.key], slot[rec.key]

		switch rec.kind {
		case "write", "store":
			born := rec.kind == "write" && rec.op.HasTTL && rec.op.TTLNs < 0
			add(p, rec.client, linIn{op: lWrite, slot: s, tok: rec.tok.ID, expired: born, hashed: hashed}, linOut{kind: "nil"}, rec.inv, rec.ret)
		case "read":
			o := linOut{kind: errKind(rec.err)}

			switch o.kind {
			case "nil":
				o.kind = "fresh"

				if t, ok := rec.val.(Tok); ok && t.K == rec.key {
					o.tok = t.ID
				} else {
					out.violate("C08.R1", sc.Backend+" foreign-value", "%s read(%q) returned %v", rec.id(), rec.key, rec.val)
				}
			case "expired":
				if t, ok := rec.expVal.(Tok); ok && rec.expOK && t.K == rec.key {
					o.tok = t.ID
				} else {
					out.violate("C08.R1", sc.Backend+" foreign-stale-value", "%s read(%q) reported stale value %v", rec.id(), rec.key, rec.expVal)
				}
			}

			add(p, rec.client, linIn{op: lRead, slot: s}, o, rec.inv, rec.ret)
		case "load":
			o := linOut{kind: "miss"}
			if rec.ok {
				o.kind = "ok"

				if t, ok := rec.val.(Tok); ok {
					o.tok = t.ID
				}
			}

			add(p, rec.client, linIn{op: lLoad, slot: s}, o, rec.inv, rec.ret)
		case "delete":
			add(p, rec.client, linIn{op: lDelete, slot: s}, linOut{kind: errKind(rec.err)}, rec.inv, rec.ret)
		case "expireAll", "deleteAll":
			op := lExpire
			if rec.kind == "deleteAll" {
				op = lDeleteAll
			}

			for k, pk := range part {
				add(pk, rec.client, linIn{op: op, slot: slot[k]}, linOut{}, rec.inv, rec.ret)
			}
		}
	}

	for ci, c := range cycles {
		for k, pk := range part {
			add(pk, 100+ci, linIn{op: lCleanup, slot: slot[k]}, linOut{}, c.call, c.ret)

			if evictPossible {
				add(pk, 200+ci, linIn{op: lEvict, slot: slot[k]}, linOut{}, c.call, c.ret)
			}
		}
	}

	// reach
	for i, a := range r.recs {
		for _, b := range r.recs[i+1:] {
			if a.client == b.client || !overlapping(a.inv, a.ret, b.inv, b.ret) {
				continue
			}

			same := a.key == b.key || a.kind == "expireAll" || a.kind == "deleteAll" || b.kind == "expireAll" || b.kind == "deleteAll"
			if !same {
				continue
			}

			overlapSameKey = true
			pair := []string{a.kind, b.kind}
			sort.Strings(pair)

			switch strings.Join(pair, "+") {
			case "read+write", "load+write", "read+store":
				out.probe("read_overlapping_write")
			case "delete+write":
				out.probe("delete_overlapping_write")
			case "delete+read":
				out.probe("read_overlapping_delete")
			}
		}

		for _, c := range cycles {
			if overlapping(a.inv, a.ret, c.call, c.ret) {
				if a.kind == "write" {
					out.probe("janitor_cycle_overlapping_write")
				}

				overlapSameKey = true
			}
		}
	}

	out.NonTrivial = overlapSameKey
	out.Outcome = fmt.Sprintf("ops=%d cycles=%d", len(r.recs), len(cycles))

	if len(cycles) > 0 {
		if out.Faults == nil {
			out.Faults = map[string]int{}
		}

		out.Faults["janitor_cycle"] += len(cycles)
	}

	r.walkRule(cycles)

	model := porcupine.NondeterministicModel{
		Init: nil,
		Step: linStep,
	}

	pids := make([]int, 0, len(ops))
	for p := range ops {
		pids = append(pids, p)
	}

	sort.Ints(pids)

	backend := sc.Backend

	// porcupine's timeout uses real timers: run it outside the bubble.
	out.post = append(out.post, func() {
		for _, p := range pids {
			n := nslots[p]
			init := make([]string, n)

			for i := range init {
				init[i] = "-"
			}

			m := model
			m.Init = func() []interface{} { return []interface{}{linState(init)} }

			res := porcupine.CheckOperationsTimeout(m.ToModel(), ops[p], 10*time.Second)

			switch res {
			case porcupine.Illegal:
				// classify: does the history become legal if a cleanup cycle may also remove an
				// entry that was rewritten (fresh) while the cycle was running?
				class := "not-linearizable"

				relaxed := make([]porcupine.Operation, len(ops[p]))
				for i, o := range ops[p] {
					if in := o.Input.(linIn); in.op == lCleanup {
						in.expired = true
						o.Input = in
					}

					relaxed[i] = o
				}

				if porcupine.CheckOperationsTimeout(m.ToModel(), relaxed, 10*time.Second) == porcupine.Ok {
					class = "cleanup-removed-entry-rewritten-during-cycle"
				}

				out.violate("C08.R1", backend+" "+class, "history of partition %d (%d operations incl. batch pseudo-operations) has no sequential order consistent with real-time precedence: %s", p, len(ops[p]), describeOps(ops[p]))
			case porcupine.Unknown:
				out.Inconcl++
			}
		}
	})
}

func describeOps(ops []porcupine.Operation) string {
	sorted := append([]porcupine.Operation(nil), ops...)
	sort.Slice(sorted, func(i, j int) bool { return sorted[i].Call < sorted[j].Call })

	var b strings.Builder

	for i, o := range sorted {
		if i > 0 {
			b.WriteString("; ")
		}

		in := o.Input.(linIn)
		ou := o.Output.(linOut)
		fmt.Fprintf(&b, "[%d,%d] c%d %s(slot%d", o.Call, o.Return, o.ClientId, linNames[in.op], in.slot)

		if in.op == lWrite {
			fmt.Fprintf(&b, ",%s", in.tok)

			if in.expired {
				b.WriteString(",born-expired")
			}
		}

		b.WriteString(")")

		if ou.kind != "" {
			fmt.Fprintf(&b, "->%s %s", ou.kind, ou.tok)
		}

		if i > 40 {
			b.WriteString("; ...")

			break
		}
	}

	return b.String()
}

// walkRule is C08.R2: every visited (k, v) was written by a Write invoked before the visit;
// every key that was present at the walk's invocation and has no operation overlapping the walk
// is visited exactly once.
func (r *beRun) walkRule(cycles []cycleRec) {
	out := r.e.out
	evictPossible := r.sc.Cfg.CountSoftLimit > 0 || r.sc.Cfg.EvictionNeeded != nil

	for _, w := range r.recs {
		if w.kind != "walk" || !w.done {
			continue
		}

		out.probe("walk_checked")

		count := map[string]int{}

		for _, v := range w.walk {
			count[v.key]++

			t, isTok := v.val.(Tok)
			okv := false

			for _, o := range r.recs {
				if (o.kind == "write" || o.kind == "store") && o.key == v.key && isTok && o.tok == t && o.inv < v.seq {
					okv = true
				}
			}

			if !okv {
				out.violate("C08.R2", r.sc.Backend+" walk-unwritten-entry", "%s Walk visited (%q, %v) which no Write invoked before the visit had stored", w.id(), v.key, v.val)
			}
		}

		// A visit reports what the cache held at some instant of the walk: for the sharded maps between the
		// previous callback and this one (the entry is copied when the iteration reaches it), for sync.Map at any
		// point of the Range. A value that a completed Delete / DeleteAll / overwrite had already replaced
		// before that window began is stale: the walk is not looking at the live cache.
		prevSeq := w.inv

		for _, v := range w.walk {
			from := prevSeq
			if r.sc.Backend == "syncmap" {
				from = w.inv
			}

			prevSeq = v.seq

			t, isTok := v.val.(Tok)
			if !isTok {
				continue
			}

			var stored *beRec

			for _, o := range r.recs {
				if (o.kind == "write" || o.kind == "store") && o.done && o.key == v.key && o.tok == t {
					stored = o
				}
			}

			if stored == nil {
				continue
			}

			for _, o := range r.recs {
				if !o.done || o.inv < stored.ret || o.ret >= from {
					continue
				}

				kills := (o.kind == "delete" && o.key == v.key && o.err == nil) || o.kind == "deleteAll" ||
					((o.kind == "write" || o.kind == "store") && o.key == v.key && o.err == nil && o.tok != t)

				for _, d := range o.walkDel {
					if d.key == v.key && d.err == nil {
						kills = true
					}
				}

				if kills {
					out.violate("C08.R2", r.sc.Backend+" walk-stale-entry", "%s Walk visited (%q, %v) at seq %d although %s %s had replaced or removed that value and returned at seq %d, before the part of the walk that reached the entry began (seq %d): the walk is not iterating the live cache",
						w.id(), v.key, v.val, v.seq, o.id(), o.kind, o.ret, from)

					break
				}
			}

			out.probe("walk_visit_freshness_checked")
		}

		for _, kb := range r.sc.Keys {
			k := string(kb)

			// last completed operation on k before the walk started, and nothing overlapping
			var last *beRec

			quiet := true

			for _, o := range r.recs {
				if o == w || !o.done {
					continue
				}

				touches := o.key == k && (o.kind == "write" || o.kind == "store" || o.kind == "delete")
				touches = touches || o.kind == "deleteAll" || o.kind == "expireAll"

				// colliding writes may displace k
				if !touches && (o.kind == "write" || o.kind == "store") && r.sc.Backend != "syncmap" && r.sameGroup(o.key, k) {
					touches = true
				}

				if !touches {
					continue
				}

				if o.ret < w.inv {
					if o.kind != "expireAll" && (last == nil || o.ret > last.ret) {
						last = o
					}

					// anything concurrent with the last write makes presence ambiguous
					continue
				}

				if o.inv < w.ret {
					quiet = false
				}
			}

			for _, c := range cycles {
				if c.call < w.ret && c.ret > w.inv {
					quiet = false
				}

				if evictPossible && last != nil && c.ret > last.inv {
					quiet = false // an eviction cycle after the write may have removed the entry
				}

				if last != nil && c.ret > last.inv && last.op.HasTTL && last.op.TTLNs < 0 {
					quiet = false // born-expired entries may be cleaned up
				}
			}

			if last == nil || !quiet || (last.kind != "write" && last.kind != "store") || last.key != k {
				continue
			}

			// was the last write itself overlapped by another touching operation? then ambiguous
			amb := false

			for _, o := range r.recs {
				if o == last || o == w || !o.done {
					continue
				}

				touches := (o.key == k && (o.kind == "write" || o.kind == "store" || o.kind == "delete")) || o.kind == "deleteAll" ||
					((o.kind == "write" || o.kind == "store") && r.sc.Backend != "syncmap" && r.sameGroup(o.key, k))
				if touches && o.inv < w.inv && o.ret > last.inv {
					amb = true
				}
			}

			// a cleanup cycle overlapping the write itself: whether the entry survived is a
			// question of linearizability (R1 and its classification), not of the walk
			for _, c := range cycles {
				if c.call < last.ret && c.ret > last.inv {
					amb = true
				}
			}

			// ExpireAll-ed entries may be cleaned up by a later cycle
			for _, o := range r.recs {
				if o.kind == "expireAll" && o.done && o.ret > last.inv {
					for _, c := range cycles {
						if c.ret > o.inv {
							amb = true
						}
					}
				}
			}

			if amb {
				continue
			}

			out.probe("walk_unchanged_entry_checked")

			if count[k] != 1 {
				out.violate("C08.R2", r.sc.Backend+" walk-missed-or-duplicated", "%s Walk visited key %q %d times although it held %v unchanged for the whole walk", w.id(), k, count[k], last.tok)
			}
		}
	}
}

func (r *beRun) sameGroup(a, b string) bool {
	m := refModel{r: r}

	return m.sameGroup(a, b)
}

// overlapExpireRule is C08.R3: after overlapping ExpireAll calls (and nothing else) every entry carries the start
// time of the earliest call: one instant for all, no earlier than the first invocation and no later than the first
// return.
func (r *beRun) overlapExpireRule() {
	out := r.e.out

	var minInv, minRet int64 = math.MaxInt64, math.MaxInt64

	n := 0

	for _, o := range r.recs {
		if o.kind != "expireAll" || !o.done {
			continue
		}

		n++

		if o.invT < minInv {
			minInv = o.invT
		}

		if o.retT < minRet {
			minRet = o.retT
		}
	}

	if n < 2 {
		return
	}

	exp := map[string]int64{}

	_, _ = r.bk.walk(func(key []byte, _ interface{}, at time.Time) error {
		exp[string(key)] = at.UnixNano()

		return nil
	})

	out.probe("overlapping_expire_all_judged")

	distinct := map[int64]bool{}

	for _, kb := range r.sc.Keys {
		e, ok := exp[string(kb)]
		if !ok {
			out.violate("C08.R3", r.sc.Backend+" entry-lost-by-expire-all", "key %q is gone after %d overlapping ExpireAll calls (nothing else ran)", kb, n)

			return
		}

		distinct[e] = true

		if e < minInv || e > minRet {
			out.violate("C08.R3", r.sc.Backend+" expiry-not-that-of-the-earliest-expire-all", "after %d overlapping ExpireAll calls key %q expires at %v; the earliest call was invoked at %v and the first one to return did so at %v: an entry keeps the expiry the first call gave it",
				n, kb, time.Unix(0, e).UTC().Format("15:04:05.000000000"), time.Unix(0, minInv).UTC().Format("15:04:05.000000000"), time.Unix(0, minRet).UTC().Format("15:04:05.000000000"))

			return
		}
	}

	if len(distinct) > 1 {
		out.violate("C08.R3", r.sc.Backend+" entries-expired-at-different-instants", "%d overlapping ExpireAll calls (and nothing else) left %d different expiry instants on %d entries: a later call moved the expiry of an entry that an earlier call had expired already", n, len(distinct), len(r.sc.Keys))
	}
}
