package sim

import (
	"context"

	"github.com/bool64/cache"
	zs "github.com/bool64/cache/zzverifsim"
)

// Value representations. The harness thinks in tokens (Tok, a comparable struct); the untyped APIs of
// the library accept any value, so the same token can travel in a representation with different Go
// semantics: uncomparable (slice, map, struct holding a slice) or compared by identity (pointer).
// The library only ever sees the wrapped value, the oracles only the token.

type sliceVal []Tok

type mapVal map[string]Tok

type boxVal struct {
	T     Tok
	Extra []byte
}

func init() { cache.GobRegister(sliceVal{}, mapVal{}, boxVal{}) }

// nilID marks the token that stands for a nil interface value written to an untyped backend.
const nilID = "nil"

// nilTok maps a nil value read back from a backend to its token.
func nilTok(key string, v interface{}) interface{} {
	if v == nil {
		return Tok{K: key, ID: nilID}
	}

	return v
}

var valReps = []string{"", "slice", "map", "box", "ptr"}

func wrapVal(rep string, t Tok) interface{} {
	if t.ID == nilID {
		return nil // the "nil was written under this key" token of the backend engine
	}

	switch rep {
	case "slice":
		return sliceVal{t}
	case "map":
		return mapVal{"v": t}
	case "box":
		return boxVal{T: t, Extra: []byte(t.ID)}
	case "ptr":
		c := t

		return &c
	}

	return t
}

// unwrapVal returns the token carried by a wrapped value (anything else is returned unchanged).
func unwrapVal(v interface{}) interface{} {
	switch x := v.(type) {
	case sliceVal:
		if len(x) == 1 {
			return x[0]
		}
	case mapVal:
		if t, ok := x["v"]; ok && len(x) == 1 {
			return t
		}
	case boxVal:
		if string(x.Extra) == x.T.ID {
			return x.T
		}
	case *Tok:
		if x != nil {
			return *x
		}
	}

	return v
}

// Logger shapes. The library accepts loggers that implement only Error, and loggers made by
// cache.NewLogger in which "any logging function can be nil".
//
// mask 0: the full four-level logger; 16: a logger with an Error method only; 1..15: cache.NewLogger
// with the levels whose bit is set (1 error, 2 warn, 4 important, 8 debug).
type fullLogger interface {
	Error(ctx context.Context, msg string, kv ...interface{})
	Debug(ctx context.Context, msg string, kv ...interface{})
	Warn(ctx context.Context, msg string, kv ...interface{})
	Important(ctx context.Context, msg string, kv ...interface{})
}

type errorOnlyLogger struct{ l fullLogger }

func (e errorOnlyLogger) Error(ctx context.Context, msg string, kv ...interface{}) {
	e.l.Error(ctx, msg, kv...)
}

func shapeLogger(l fullLogger, mask int) cache.Logger {
	switch {
	case mask <= 0:
		return l
	case mask >= 16:
		return errorOnlyLogger{l}
	}

	var e, w, i, d func(ctx context.Context, msg string, kv ...interface{})

	if mask&1 != 0 {
		e = l.Error
	}

	if mask&2 != 0 {
		w = l.Warn
	}

	if mask&4 != 0 {
		i = l.Important
	}

	if mask&8 != 0 {
		d = l.Debug
	}

	return cache.NewLogger(e, w, i, d)
}

// quietLogger is a four-level logger that only yields (transfer engine: log content is not judged).
type quietLogger struct{}

func (quietLogger) Error(_ context.Context, _ string, kv ...interface{}) {
	zs.Yield("log.error")
	renderLogArgs(kv)
}

func (quietLogger) Debug(_ context.Context, _ string, kv ...interface{}) {
	zs.Yield("log.debug")
	renderLogArgs(kv)
}

func (quietLogger) Warn(_ context.Context, _ string, kv ...interface{}) {
	zs.Yield("log.warn")
	renderLogArgs(kv)
}

func (quietLogger) Important(_ context.Context, _ string, kv ...interface{}) {
	zs.Yield("log.important")
	renderLogArgs(kv)
}

// renderLogArgs: a logger renders its arguments (fmt, json, ...), i.e. it reads, with plain loads, every field
// of a struct it is given a pointer to. Only the race detector takes notice (C16); the reads happen after the
// logger's yield, a real logger is slow.
func renderLogArgs(kv []interface{}) {
	for _, a := range kv {
		zs.ReadAll(a, "logger renders its argument")
	}
}
