package sim

import (
	"fmt"
	"sort"
	"strings"
)

// overlapping reports whether two completed-or-open seq intervals overlap.
func overlapping(a1, a2, b1, b2 uint64) bool { return a1 < b2 && b1 < a2 }

// commonFO computes reach measures shared by the FO properties.
func (r *foRun) commonFO() {
	out := r.e.out

	// Non-trivial: at least two Gets on the same key overlapped in time.
	for i, a := range r.ops {
		for _, b := range r.ops[i+1:] {
			if a.key == b.key && a.client != b.client && overlapping(a.inv, a.ret, b.inv, b.ret) {
				out.NonTrivial = true
			}
		}
	}

	perKey := map[string]int{}

	for _, b := range r.builds {
		perKey[b.key]++

		if b.background {
			out.probe("background_build")
		}

		if b.fail {
			out.probe("failed_build")
		}

		// a Get for the same key was invoked while this build was running
		for _, o := range r.ops {
			if o != b.op && o.key == b.key && o.inv > b.enter && o.inv < b.exit {
				out.probe("get_invoked_during_build")

				break
			}
		}

		// the UpdateTTL re-store had already expired when the builder started or finished
		if b.exitNs-b.enterNs > int64(r.updateTTL) {
			out.probe("build_longer_than_update_ttl")
		}
	}

	for _, n := range perKey {
		if n > 1 {
			out.probe("key_built_more_than_once")
		}
	}

	for _, l := range r.logs {
		if l.msg == "waiting for cache value" {
			out.probe("waiter_registered")
		}
	}

	// Outcome class: multiset of result kinds.
	var kinds []string

	for _, o := range r.ops {
		kinds = append(kinds, r.resultKind(o))
	}

	sort.Strings(kinds)
	out.Outcome = fmt.Sprintf("%s builds=%d", strings.Join(kinds, ","), len(r.builds))
}

func (r *foRun) resultKind(o *opRec) string {
	switch {
	case !o.done:
		return "pending"
	case o.panicked:
		return "panic"
	case o.err != nil:
		return "err"
	}

	t, ok := o.val.(Tok)
	if !ok {
		return "nonTok"
	}

	if t.ID == "pre" {
		return "pre"
	}

	if t.ID == "b"+o.id()[1:] {
		return "own"
	}

	return "other"
}

// oracleC01: the overlap rule itself is evaluated online at builder entry (fo.go); here
// only reach measures are computed.
func (r *foRun) oracleC01() {
	r.commonFO()
}
