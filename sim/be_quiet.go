package sim

import (
	"fmt"
	"math"
	"math/rand/v2"
	"sort"
	"time"

	zs "github.com/bool64/cache/zzverifsim"
)

// Mode "concquiet" (C11 and C12): clients write (with and without per-call TTLs), delete, DeleteAll and
// ExpireAll concurrently while the real janitor runs cleanup / eviction cycles in between (its interval is of
// the order of the clients' pauses). Whatever happened in that phase, afterwards nothing touches the cache
// any more, and the janitor is observed through further, quiet cycles. A quiet cycle has no excuse:
//
//	C11: it removes every entry expired longer than DeleteExpiredAfter and nothing else
//	C12: with more entries than CountSoftLimit it brings the count down to CountSoftLimit*(1-EvictFraction);
//	     without a trigger it evicts nothing
//
// so bookkeeping that was corrupted by a race in the first phase (a skipped scan, a stale count) shows as a
// cache that stays wrong through quiet cycles.
func init() { beModes["concquiet"] = (*beRun).modeConcQuiet }

func genConcQuiet(r *rand.Rand, prop string) *Scenario {
	sc := genBEBase(r, "concquiet")
	be := sc.BE
	sc.NoFastPath = chance(r, 0.7)
	sc.TickNs = pick(r, int64(100), 1000, 1000)
	iv := pick(r, ms, 2*ms, 5*ms)
	be.Cfg = BEConfig{
		TTLNs: pick(r, int64(-1), -1, 3600*sec), Jitter: -1, Strategy: r.IntN(3),
		JanitorIntervalNs: iv, DeleteExpiredAfterNs: pick(r, ms, 5*ms), Stats: chance(r, 0.2),
	}

	nk := 2 + r.IntN(5)

	if prop == "C12" {
		be.Cfg.CountSoftLimit = uint64(2 + r.IntN(6))
		be.Cfg.EvictFraction = pick(r, 0.2, 0.5)
		nk = int(be.Cfg.CountSoftLimit) + 1 + r.IntN(6)
		be.Cfg.DeleteExpiredAfterNs = 1000 * 24 * 3600 * sec // eviction alone
	}

	for i := 0; i < nk; i++ {
		be.Keys = append(be.Keys, []byte(fmt.Sprintf("q%02d", i)))
		be.Groups = append(be.Groups, -1)
	}

	// some entries exist before the clients start
	for i := 0; i < nk; i++ {
		if chance(r, 0.4) {
			be.Root = append(be.Root, BEOp{Kind: "write", Key: i})
		}
	}

	nc := 2 + r.IntN(4)
	for c := 0; c < nc; c++ {
		var ops []BEOp

		for i := 2 + r.IntN(6); i > 0; i-- {
			switch x := r.IntN(100); {
			case x < 45:
				op := BEOp{Kind: "write", Key: r.IntN(nk)}

				if prop == "C11" && chance(r, 0.6) {
					op.HasTTL, op.TTLNs = true, pick(r, ms/2, ms, 2*ms, -ms, -50*ms)
				}

				ops = append(ops, op)
			case x < 55:
				ops = append(ops, BEOp{Kind: "delete", Key: r.IntN(nk)})
			case x < 63:
				ops = append(ops, BEOp{Kind: "deleteAll"})
			case x < 68 && prop == "C11":
				ops = append(ops, BEOp{Kind: "expireAll"})
			case x < 80:
				ops = append(ops, BEOp{Kind: "read", Key: r.IntN(nk)})
			default:
				ops = append(ops, BEOp{Kind: "sleep", SleepNs: pick(r, 50*sc.TickNs, iv/3, iv, iv+iv/2)})
			}
		}

		be.Clients = append(be.Clients, ops)
	}

	sc.Sched = genSched(r, 200+nc*100)

	return sc
}

func (r *beRun) snapshot() map[string]int64 {
	s := map[string]int64{}

	_, _ = r.bk.walk(func(key []byte, _ interface{}, at time.Time) error {
		if at.IsZero() {
			s[string(key)] = 0
		} else {
			s[string(key)] = at.UnixNano()
		}

		return nil
	})

	return s
}

func (r *beRun) modeConcQuiet() {
	e := r.e
	out := e.out
	cfg := r.sc.Cfg
	prop := e.sc.Prop

	if r.janitor == nil || cfg.JanitorIntervalNs <= 0 {
		out.Internal = "concquiet needs a running janitor"

		return
	}

	for i := range r.sc.Root {
		r.rootSleep(1)
		r.exec(-1, i, &r.sc.Root[i])
	}

	r.spawnClients()

	if !e.runAll(prop + ".STUCK") {
		return
	}

	e.checkPanics()

	cyclesDuring := r.janitor.Wakes
	explicitTTL, expiredAll := false, false

	for _, rec := range r.recs {
		if rec.kind == "write" && rec.op.HasTTL && rec.op.TTLNs != 0 {
			explicitTTL = true
		}

		if rec.kind == "expireAll" && rec.done {
			expiredAll = true
		}
	}

	// is the delete-expired scan documented to run? (UnlimitedTTL skips it until an expiration was set)
	// (an ExpireAll that found entries set expirations too; whether it found any is not known here, so it
	// only counts when the snapshot before a quiet cycle shows an entry with an expiration)
	scanDocumented := cfg.TTLNs != -1 || explicitTTL || expiredAll
	evictPossible := cfg.CountSoftLimit > 0 || cfg.EvictionNeeded != nil || cfg.HeapLimit == 1 || cfg.SysLimit == 1
	dea := cfg.DeleteExpiredAfterNs
	frac := cfg.EvictFraction

	if frac == 0 {
		frac = 0.1
	}

	// quiet cycles until every per-call TTL of the first phase (at most 2ms) has lapsed for longer than
	// DeleteExpiredAfter, and a few more; every one of them is judged
	nCycles := 3
	if prop == "C11" {
		nCycles += int((dea + 3*ms) / cfg.JanitorIntervalNs)
	}

	quiet := 0

	for c := 0; c < nCycles; c++ {
		before := r.snapshot()
		wakes := r.janitor.Wakes

		out.fault("clock_jump")

		if v := e.s.Advance(dur(cfg.JanitorIntervalNs) + time.Millisecond); v != zs.Quiescent {
			out.Internal = "concquiet: advance " + v.String() + " " + e.s.StuckInfo

			return
		}

		if r.janitor.Wakes == wakes {
			continue
		}

		if r.janitor.Wakes != wakes+1 {
			// two cycles in one jump: judge them as one against the earlier boundary only
			out.probe("two_cycles_in_one_jump")
		}

		quiet++
		out.fault("janitor_cycle")

		after := r.snapshot()
		wake, blocked := r.janitor.LastWakeNs, r.janitor.LastBlockNs
		class := fmt.Sprintf("%s quiet-cycle-%d", r.sc.Backend, quiet)

		keys := make([]string, 0, len(before))
		for k := range before {
			keys = append(keys, k)
		}

		sort.Strings(keys)

		ambiguous := false
		purge := map[string]bool{}

		for _, k := range keys {
			exp := before[k]

			switch {
			case exp == 0:
			case exp < wake-dea-int64(time.Duration(r.janitor.Wakes-wakes-1)*dur(cfg.JanitorIntervalNs)):
				purge[k] = true
			case exp <= blocked-dea:
				ambiguous = true
			}
		}

		for k := range after {
			if _, ok := before[k]; !ok {
				out.violate(prop+".R1", class+" resurrected", "quiet cleanup cycle: Walk reports key %q that was not there before the cycle (nothing writes any more)", k)
			}
		}

		if prop == "C11" && !evictPossible {
			for _, k := range keys {
				_, still := after[k]

				switch {
				case purge[k] && still && scanDocumented:
					out.violate("C11.R2", class+" not-deleted", "after the concurrent phase (%d cycles) nothing touches the cache any more, yet the cleanup cycle at %v (DeleteExpiredAfter=%v) kept entry %q that expired at %v",
						cyclesDuring, time.Unix(0, wake).UTC(), dur(dea), k, time.Unix(0, before[k]).UTC())
				case purge[k] && !still:
					out.probe("quiet_cycle_purged_long_expired_entry")
				case !purge[k] && !still && !(ambiguous && before[k] != 0):
					out.violate("C11.R1", class+" wrongly-deleted", "quiet cleanup cycle at %v (DeleteExpiredAfter=%v) removed entry %q (expiry %v, 0 = never) which was not expired for that long",
						time.Unix(0, wake).UTC(), dur(dea), k, before[k])
				}
			}
		}

		if prop == "C12" && cfg.CountSoftLimit > 0 && !ambiguous {
			n0 := len(before) - len(purge)
			kept := 0

			for _, k := range keys {
				if _, still := after[k]; still && !purge[k] {
					kept++
				}
			}

			if uint64(n0) > cfg.CountSoftLimit {
				out.probe("quiet_cycle_count_breach")

				target := float64(cfg.CountSoftLimit) * (1 - frac)
				if math.Abs(float64(kept)-target) > 1.000001 {
					out.violate("C12.R2", class+" count-breach-amount", "after the concurrent phase (%d cycles) nothing touches the cache any more: %d entries, CountSoftLimit=%d, EvictFraction=%v, and after a quiet cleanup cycle %d entries are left, expected %.2f (within one entry)",
						cyclesDuring, n0, cfg.CountSoftLimit, frac, kept, target)
				}
			} else if cfg.EvictionNeeded == nil && kept != n0 {
				out.violate("C12.R1", class+" evicted-without-trigger", "quiet cleanup cycle removed %d of %d entries although CountSoftLimit=%d is not exceeded", n0-kept, n0, cfg.CountSoftLimit)
			}
		}

		if len(out.Violations) > 0 {
			return
		}
	}

	out.NonTrivial = cyclesDuring > 0 && quiet > 0 && len(r.recs) > 0
	out.Outcome = fmt.Sprintf("concquiet cycles-during=%d quiet=%d ops=%d", cyclesDuring, quiet, len(r.recs))

	if cyclesDuring > 0 {
		out.probe("cleanup_cycle_during_concurrent_phase")
	}
}
