"""Per-property metadata used by ./check (tier sizes, evidence texts)."""

REAL = [
    "cache.Failover / cache.FailoverOf (Get, key locks, failure cache, background builds)",
    "cache.ShardedMap, cache.SyncMap, cache.ShardedMapOf incl. Trait (TTL, jitter formula, PrepareRead), janitor goroutine, eviction",
    "cache.InvalidationIndex, cache.Invalidator, context helpers (WithTTL, SkipRead, detachedContext)",
    "gob Dump/Restore, HTTPTransfer Export/Import handlers",
    "github.com/cespare/xxhash/v2, encoding/gob, sync.Map, Go runtime maps",
]
STUB = [
    "wall clock and timers: testing/synctest bubble clock (go1.26.8)",
    "goroutine choice: seeded scheduler, one task runs at a time (strict hand-off at yield points)",
    "mutex blocking: cooperative lock table in front of the real sync.Mutex/RWMutex",
    "Go map and sync.Map.Range iteration order: sorted then permuted by the run's PRNG stream",
    "TTL jitter draw (rand.Float64 in Trait.TTL): run-controlled source",
    "user call-outs: backend wrapper, builder, logger, stats tracker, deleter, walk callbacks are harness code",
    "TCP/HTTP stack: in-process http.RoundTripper calling Export().ServeHTTP",
    "runtime.MemStats based soft limits: never enabled (not simulated)",
    "finalizers: cleared by the VerifStop hook; janitors are stopped inside the bubble",
]
ASSUMPTIONS = [
    "sampling, not enumeration: a clean batch is evidence, not proof",
    "the instrumenter's rewrites (listed under coverage.instrumentation) preserve the library's semantics; "
    "the repo's own test suite passes on the instrumented copy in pass-through mode",
    "behaviour inside sync.Map, encoding/gob, the runtime map implementation and xxhash is taken as atomic/correct",
    "a strictly increasing nanosecond clock between scheduling steps (tick >= 1 ns)",
]

PROPS = {}


def prop(pid, **kw):
    kw.setdefault("level", "exploration")
    PROPS[pid] = kw


prop(
    "C01",
    quick={"runs": 12000},
    thorough={"runs": 100000000, "budget_s": 600},
    rule="Scenarios (2-8 clients x 1-4 Gets on 1-3 keys, initial entry state absent/fresh/stale/too-stale per key, "
         "random FailoverConfig, builder scripts, backend kind, API flavour; in a quarter of the scenarios callers cancel, rewrite their key slice with another key or re-use one key buffer after Get returned, everywhere else the private key slice is overwritten after return) are drawn from the seeded PRNG and executed "
         "under random / PCT / mostly-sequential schedules at call-out and lock granularity. A run is non-trivial when at "
         "least two Gets of different clients on the same key overlapped in event-sequence time; distinct = distinct "
         "(scenario, schedule signature) among those, the schedule signature being the hash of the sequence of (task, yield label).",
    rules=["C01.R1 overlap: at builder entry for key k no other builder invocation for k is between its enter and exit events (checked online)"],
    probes=["background_build", "failed_build", "get_invoked_during_build", "build_longer_than_update_ttl",
            "key_built_more_than_once", "waiter_registered"],
)

LEVEL_TEXT = ("Seeded search over schedules, clock movements and faults of the real library code inside a deterministic "
              "simulator; oracles are invariants and reference-model checks over the recorded history. A clean batch is "
              "evidence, not proof; every failure is shrunk and replays exactly.")
LEVEL_NOTE = ("Trusted base: the simulator runtime (simrt/), the instrumenter's semantics-preserving rewrites, testing/synctest of "
              "go1.26.8, and that sync.Map / encoding/gob / runtime maps / xxhash behave atomically and correctly.")
NOT_APPLICABLE = {}

FO_RULE = ("Scenarios are drawn from the seeded PRNG (clients, keys, Gets with builder scripts, initial entry state per key, "
           "FailoverConfig, backend kind (in 20 % a decorator wrapping read errors with %w), API flavour (Failover, FailoverOf[T], FailoverOf[any] over untyped backends), builder errors that wrap context / cache sentinels, builders that call Get for another key, value representation on the untyped API (struct, slice, map, struct-with-slice, pointer), fault plan) and executed under random / PCT / mostly-sequential "
           "schedules at call-out and lock granularity. ")

prop("C02", quick={"runs": 8000}, thorough={"runs": 100000000, "budget_s": 600}, level="fault_enumeration",
     rule=FO_RULE + "Half of the runs come in families of 16 that share one small scenario while the failing backend call sweeps over "
     "every ordinal (Read ordinals 0-7, then Write ordinals 0-7) under varying schedules; the other half inject failures at random "
     "ordinals of larger scenarios (incl. the UpdateTTL re-store); in 10 % the backend reports expired entries with the bare ErrExpired sentinel, without the item; one run in eight has a waiter on a background update while Gets of other keys arrive around its end. Non-trivial: two Gets of different clients on one key overlapped; "
     "distinct = distinct (scenario, schedule signature).",
     rules=["C02.R1 wrong-key", "C02.R2 unfinished-or-failed-build", "C02.R3 fabricated (nil / zero value with nil error)",
            "C02.R4 foreign or unknown error"],
     probes=["other_get_in_flight_at_unexpected_read_error", "other_get_in_flight_at_write_error", "stale_value_and_failing_builder",
             "background_build", "failed_build", "get_invoked_during_build"])
prop("C03", quick={"runs": 1000000}, thorough={"runs": 100000000, "budget_s": 900}, exhaustive=True,
     rule="The decision table is enumerated completely: entry state {absent, fresh, stale within MaxStaleness, stale beyond} x failure "
     "cached {no, yes} x SyncUpdate x FailHard x MaxStaleness {0, set} x FailedUpdateTTL {default, -1} x builder {ok, error} x "
     "flavour {Failover/ShardedMap, Failover/SyncMap, FailoverOf/ShardedMapOf, Failover/ShardedMapOf[any], FailoverOf[any]/SyncMap} x 3 clock offsets x SyncRead, "
     "plus (at the middle offset) a nil cached value on the untyped flavours and a decorating backend that wraps every read error with %w, minus impossible cells (7680 cells); in 15 % of the stale cells (chosen per seed) the backend reports the expired entry with the bare ErrExpired sentinel, without the item, which makes it as good as absent, and in 15 % another part of the application calls ExpireAll right before the Get (an entry that had expired keeps its age); "
     "each cell is reached by driving the simulated clock, the builder sleeps 1 s of simulated time so that 'Get returned before/after "
     "the build finished' is observable. Every cell is non-trivial; distinct = distinct (cell, schedule). Thorough repeats all cells "
     "40 times under different schedules, jitter extremes, logger/stats on.",
     rules=["C03.<cell-class>: result and build mode of the lone Get equal the documented table; backend and failure cache content after quiescence"],
     probes=["background_build", "failed_build", "expired_entry_without_item"])
prop("C04", quick={"runs": 8000}, thorough={"runs": 100000000, "budget_s": 600},
     rule=FO_RULE + "Callers cancel contexts, let deadlines pass, overwrite or reuse key buffers after Get returned; backend faults "
     "are injected. Two runs in eight are the waiters family (one key, all Gets runnable at once, late forced rebuilds with long builders), one in eight the late-readers family (Gets arriving within a few steps of the end of a build that outlasted UpdateTTL). After quiescence everything is expired and one fault-free Get per key is issued. Non-trivial: overlapping Gets on one key.",
     rules=["C04.R1 stuck (scheduler state, not a timeout)", "C04.R2 lock-leak (VerifKeyLocks()==0 at quiescence)",
            "C04.R3 cannot-rebuild (follow-up Get must invoke its builder and return its value)",
            "C04.R4 last-build-lost (every successful build's value was stored under the Get's key)",
            "C04.R5 old-backend-error-served (the error of a rejected backend call never answers a Get invoked after it with nothing in flight for the key)",
            "C04.R6 bounded liveness in simulated time: a waiting Get returns within 0.5 simulated seconds of the return of everything invoked before it started waiting, "
            "not after a later owner's builder that sleeps for seconds",
            "C04.R7 completed-build-rolled-back: at quiescence the last successful store of a key does not carry an older origin (build exit, or 'cached before any build') than an earlier store; "
            "the signature names the mechanism (who stored the older value, what it had read, whether that Get owned the key lock, SyncRead) - one mechanism is an open known finding"],
     probes=["last_store_judged", "key_overwritten_while_background_build_pending", "ctx_cancelled_with_background_build", "background_build",
             "get_invoked_during_build", "backend_error_reached_a_get", "waiter_liveness_checked"])
prop("C05", quick={"runs": 8000}, thorough={"runs": 100000000, "budget_s": 600},
     rule=FO_RULE + "Even runs: SyncRead bursts of 2-8 clients on one missing/expired key; odd runs: sequences of Gets with failing "
     "builders and clock jumps around FailedUpdateTTL, 30 % of those Gets under a caller context TTL of 1ms .. 24h (the value's TTL, it must not govern the failure cache). Non-trivial: overlapping Gets on one key.",
     rules=["C05.R1 exactly one build per SyncRead burst", "C05.R3 no builder entry / cached error served inside (t, t+0.95*FailedUpdateTTL); a cached failure no longer answers 1.06*FailedUpdateTTL after the last failed build",
            "C05.R4 FailedUpdateTTL=-1 does not cache failures"],
     probes=["syncread_burst_single_build", "get_inside_failure_window", "get_after_uncached_failure"])
prop("C06", quick={"runs": 8000}, thorough={"runs": 100000000, "budget_s": 600},
     rule=FO_RULE + "Caller contexts carry TTL cells (positive, zero, negative), builders call WithTTL 0-3 times in both updateExisting "
     "modes, callers cancel before/after return or let a deadline pass; one family shares a request context between goroutines, one rebuilds "
     "values equal to the stale ones (ObserveMutability on/off). Non-trivial: at least one builder invocation.",
     rules=["C06.R1 the final store exists and its TTL = reference fold", "C06.R2 stale re-store uses UpdateTTL", "C06.R3 caller context TTL after Get",
            "C06.R4 background build context: no Err, no deadline, Done never fires, values visible", "C06.R5 SkipRead rebuilds and stores; a SkipRead Get is never answered with a value built before it was invoked"],
     probes=["builder_communicated_ttl", "background_build_ctx_observed", "background_build_with_cancelled_caller_ctx",
             "stale_refresh_write", "lone_skipread_get", "skipread_get_with_cached_failure", "skipread_result_provenance_checked", "shared_request_context", "rebuilt_value_equal_to_stale_one"])

BE_RULE = ("Backend scenarios (keys incl. empty, 1-byte, 300-byte, binary, common-prefix and constructed xxhash64 collision "
           "families; unique value tokens, on the untyped backends carried as struct, slice, map, struct-with-slice or pointer; TTL modes default / unlimited / per-call positive / negative; SkipRead) are drawn from the "
           "seeded PRNG and executed on ShardedMap, SyncMap and ShardedMapOf under the simulated clock. ")
prop("C07", quick={"runs": 16000}, thorough={"runs": 100000000, "budget_s": 600},
     arch32={"quick_runs": 600, "thorough_runs": 200000, "workers": 2},
     rule=BE_RULE + "A slice of the same runs (600 quick, a quarter of the budget thorough) is executed once more by a GOARCH=386 build of the simulator: word size and field alignment are a configuration too. One client issues 1-40 operations with clock jumps from ns to days; each result is compared with a reference "
     "map with per-entry expiry intervals; Walk callbacks and Dump writers fail at chosen positions and the sequence goes on. Non-trivial: >= 2 operations; distinct = distinct (scenario, schedule signature).",
     rules=["C07.<op>: Read/Load/Delete/Len/Walk results equal the reference map's; ExpireAll expires everything incl. never-expiring and leaves the expiry of what had expired before untouched; "
            "expired reads carry value and expiry instant", "C07.walkErr / dumpErr: a failing callback / writer stops the walk, its error and the count of completed callbacks are returned", "C07.walkDel: a Walk callback may delete the entry it is shown (re-entrant use), the walk still visits every entry once",
            "C07.STUCK an operation of the sequence never returns (scheduler state, not a timeout)", "C07.PANIC an operation panicked",
            "C07.retained an ErrExpired handed out earlier still carries the value it was created for at the end of the run"],
     probes=["read:nil", "read:notfound", "read:expired", "delete:nil", "delete:notfound", "expireAll", "deleteAll", "walk", "walkErr", "walkDel", "dumpErr", "len", "load", "store"])
prop("C10", quick={"runs": 16000}, thorough={"runs": 100000000, "budget_s": 600},
     arch32={"thorough_runs": 100000, "workers": 2},
     rule=BE_RULE + "Root-driven (no concurrency): 1-6 writes (Write, or Store which has no context) with config TTL {default, unlimited, 1ns..10y, negative -2ns..-1y}, context TTL {none, 0, +-1ns..+-10y}, in 8 % each 'forever' TTLs (250y, 280y, MaxInt64/2, MaxInt64, both signs) whose expiry is beyond the last unix-nanosecond instant, "
     "ExpirationJitter {disabled, default, values in (0,1], 1.5, 2}, jitter draw {0, 0.5, 1-2^-53, PRNG}; after each write Walk gives ExpireAt, the clock "
     "is moved to ExpireAt-1ns and ExpireAt+1ns. Non-trivial: at least one write; distinct = distinct scenarios.",
     rules=["C10.R1 ExpireAt within [t+T-|T|J/2, t+T+|T|J/2] (exactly t+T without jitter)", "C10.R2 never expires with UnlimitedTTL and no context TTL",
            "C10.R3 fresh 1ns before, ErrExpired 1ns after the reported instant (window not representable: reported expiry not before the window, entry served now and 20 years on)", "C10.R4 ErrExpired.ExpiredAt == Walk's ExpireAt"],
     probes=["never_expiring_write", "jitter_disabled_write", "jittered_write", "flip_probed", "born_expired", "expiry_beyond_representable_time"])
prop("C11", quick={"runs": 30000}, thorough={"runs": 100000000, "budget_s": 600},
     arch32={"thorough_runs": 100000, "workers": 2},
     rule=BE_RULE + "Root-driven writes (never-expiring, fresh, recently expired, long expired), entries arriving through Restore (without expiry, with expiry; a third of the latter over a stream that breaks after the record) and clock jumps; the real janitor goroutine runs as a "
     "scheduled task whenever the simulated clock crosses DeleteExpiredJobInterval; after every jump that contained a cycle the surviving key set is "
     "compared with the reference map. A fifth of the runs rewrite long-expired keys while a cycle is walking the shards; another fifth are a concurrent phase "
     "(writes with/without per-call TTL, deletes, DeleteAll, ExpireAll, janitor cycles in between) followed by quiet cleanup cycles in which nothing touches the cache "
     "and the cycle is judged against a Walk snapshot. Non-trivial: at least one cleanup cycle ran; distinct = distinct (scenario, schedule).",
     rules=["C11.R1 wrongly-deleted (never-expiring / fresh / recently expired entry removed)", "C11.R2 not-deleted (long-expired entry kept although the scan is documented to run)"],
     probes=["janitor_met_never_expiring_entry", "janitor_met_fresh_entry", "janitor_met_recently_expired_entry", "janitor_deleted_long_expired_entry",
             "unlimited_cache_with_explicit_ttl_cycle", "cleanup_cycle_during_concurrent_phase", "quiet_cycle_purged_long_expired_entry", "entry_without_expiry_restored", "entry_with_expiry_restored", "default_delete_expired_after", "fresh_write_during_cleanup_cycle"])
prop("C12", quick={"runs": 6000}, thorough={"runs": 100000000, "budget_s": 600},
     arch32={"thorough_runs": 100000, "workers": 2},
     rule=BE_RULE + "Root-driven fill of 1-400 entries around CountSoftLimit, access histories (reads at distinct simulated instants, rewrites), "
     "EvictionNeeded scripts, HeapInUseSoftLimit / SysMemSoftLimit at the two allocator-independent settings (1 byte: always exceeded, MaxUint64: never), "
     "EvictFraction in (0,1], three strategies; in 40 % of the LFU runs some entries arrive through Restore from a cache with the LRU strategy that had served them a few times; the real janitor/eviction runs as a scheduled task. A fifth of the runs: reads racing each other before an LRU/LFU cycle; "
     "another fifth: a concurrent phase of writes / deletes with janitor cycles in between, then quiet cycles judged against Walk snapshots. Non-trivial: at least one cycle.",
     rules=["C12.R1 no trigger -> nothing removed", "C12.R2 amount (fraction / down to CountSoftLimit*(1-f) within one entry)",
            "C12.R3 max rank(removed) <= min rank(kept) under the strategy, ranks from the harness access log (an entry restored from elsewhere: between its serves here and the sum of both histories; removed entries are judged by the lower end, kept ones by the upper end)", "C12.R4 cache_evict equals entries removed; the workload's own counters (delete, write, hit, miss, expired) do not move during a cleanup cycle"],
     probes=["cycle_without_trigger", "cycle_count_breach", "cycle_eviction_needed", "cycle_memory_limit_breach", "quiet_cycle_count_breach", "order_checked", "long_expired_entry_purged_in_eviction_cycle", "overlapping_serves_of_one_key", "entry_served_elsewhere_restored"])
prop("C08", quick={"runs": 40000}, thorough={"runs": 100000000, "budget_s": 600},
     arch32={"thorough_runs": 100000, "workers": 2},
     rule=BE_RULE + "2-16 client tasks issue 1-5 operations each over <= 4 keys (partly constructed hash collisions); in half of the runs the real "
     "janitor runs cleanup/eviction cycles concurrently. Histories (invoke/return event sequence numbers, batch operations expanded into one "
     "pseudo-operation per key) are checked with porcupine against a nondeterministic per-key model. Two runs in forty: 2-6 clients call ExpireAll at about the same time on entries written before, and nothing else happens. Non-trivial: two operations of different "
     "clients touching the same key (or a batch / janitor cycle) overlapped; distinct = distinct (scenario, schedule signature).",
     rules=["C08.R1 porcupine: Illegal is a violation, Unknown is inconclusive and never reported", "C08.R2 Walk reports only stored entries, visits every unchanged entry exactly once, and never an entry that a completed Delete / DeleteAll / overwrite had replaced before the part of the walk that reached it began",
            "C08.R3 overlapping ExpireAll calls (and nothing else) leave one expiry instant on every entry, between the first invocation and the first return"],
     probes=["overlapping_expire_all_judged", "read_overlapping_write", "delete_overlapping_write", "read_overlapping_delete", "janitor_cycle_overlapping_write", "walk_checked", "walk_unchanged_entry_checked", "walk_visit_freshness_checked"])
prop("C09", quick={"runs": 12000}, thorough={"runs": 100000000, "budget_s": 600},
     rule="Half of the runs: sequences of backend operations over families of 2-4 constructed xxhash64 collisions (64-byte keys, asserted with the "
     "real xxhash.Sum64) plus ordinary keys on all three backends, key buffers overwritten right after each call, checked against a lossy reference "
     "map (a colliding write may cost a miss, never a foreign value). Quarter: Failover runs in which callers overwrite / reuse key buffers while "
     "background builds are pending (the overwrite is a simulated step placed anywhere after the return). Quarter: Failover over colliding keys with "
     "failing builds (backend and failure cache are hash-keyed), provenance oracle. Non-trivial: >= 2 operations / pending background build / colliding keys.",
     rules=["C09.<op> lossy reference map (read/load/delete/walk/len)", "C09.R1-* provenance through Failover over colliding keys",
            "C09.R4 background build writes to and unlocks the original key; no second concurrent build after a foreign unlock"],
     probes=["write_to_colliding_key", "key_buffer_rewritten_after_backend_call", "key_overwritten_while_background_build_pending", "failover_over_colliding_keys"])
prop("C18", quick={"runs": 12000}, thorough={"runs": 100000000, "budget_s": 600},
     rule="Half of the runs: Failover workloads (as C02, faults in a quarter) with the harness stats tracker attached, frontend 'fo' and backend 'be' "
     "named differently; other half: backend workloads (sequential with ExpireAll/DeleteAll, concurrent without; 30 % over constructed hash collision families). At quiescence the metric sums are "
     "compared with the harness's own event log. Non-trivial: at least one operation.",
     rules=["C18.build / failed / refreshed (frontend)", "C18.write / delete / reads (hit+miss+expired = non-skipped reads + entries touched by ExpireAll)"],
     probes=["refresh_counted", "failed_build_counted", "expireAll_counted", "deleteAll_counted", "concurrent_metrics_checked", "deleteAll_concurrent_with_writes", "expireAll_concurrent_with_writes", "colliding_write_replaced_entry"])
TR_RULE = "Root-driven scenarios drawn from the seeded PRNG; the simulator owns the byte stream / round-tripper / deleters and the iteration order of maps and sync.Map (so every Walk order the source can produce is sampled). "
prop("C13", quick={"runs": 6000}, thorough={"runs": 100000000, "budget_s": 600},
     arch32={"quick_runs": 400, "thorough_runs": 100000, "workers": 2},
     rule=TR_RULE + "Source caches with 0-300 entries (keys of differing lengths incl. empty, binary and 4095-70000 bytes, values nil / zero / populated structs / maps / pointers, "
     "expiry unset / set / already expired) are dumped and restored along chains of 1-4 hops over ShardedMap<->SyncMap and ShardedMapOf[GV]; a third of the "
     "runs truncate or fail the stream at a byte offset or deliver it in 1-byte reads. Non-trivial: at least one entry; distinct = distinct scenarios x map order.",
     rules=["C13.R1 entry sets equal after Dump->Restore", "C13.R2 Read agrees", "C13.R3 counts", "C13.R4 relay through further hops", "C13.R5 stream faults: subset of intact entries"],
     probes=["relayed_through_second_hop"])
prop("C14", quick={"runs": 6000}, thorough={"runs": 100000000, "budget_s": 600},
     arch32={"thorough_runs": 100000, "workers": 2},
     rule=TR_RULE + "Exporter and importer HTTPTransfer instances with 0-4 named caches each (partly overlapping names, in 30 % names that need URL escaping; loggers of every shape in 40 %); Import runs against Export() through an "
     "in-process http.RoundTripper; a third of the runs inject round-trip errors, 5xx, truncated / failing bodies, a rewritten typesHash, or a slow link (4 simulated seconds per read of the body: nothing may be lost). Every 50th run is the "
     "auxiliary (non-simulation) hash clause: 4 fresh OS processes register permutations / multiplicities (in 35 % one of them after other registrations and a GobTypesHashReset) of a type pool (struct, pointer-registered, slice, map, basic kinds, "
     "two same-named types of different packages) and print GobTypesHash(); every 1000th run a fresh process with types hash 0 on both sides transfers builtin-valued caches.",
     rules=["C14.R1 imported caches equal the exporter's of the same name; every cache is requested", "C14.R2 exporter unchanged", "C14.R3 nothing imported on hash mismatch / unknown name / non-200",
            "C14.R4 body faults: subset of intact entries, Import returns nil", "C14.H1/H2 (auxiliary) hash independent of order and multiplicity, changes when a type is added", "C14.H3 (auxiliary) equal hashes of 0 are equal hashes: everything is imported"],
     probes=["cache_imported", "importer_cache_unknown_to_exporter", "types_hash_fresh_process_evaluations", "zero_types_hash_transfer", "concurrent_imports_from_one_handler"])
prop("C15", quick={"runs": 9000}, thorough={"runs": 100000000, "budget_s": 600}, level="fault_enumeration",
     rule=TR_RULE + "InvalidationIndex over 1-3 cache names with 1-3 deleters each (real backends behind a fault wrapper), generated label/key incidence structures "
     "(several labels per key, shared keys, repeated labelling, unused labels, labelled-but-absent keys, duplicated label arguments; in 15 % cache names and keys whose concatenation is ambiguous under a separator, in 10 % a constructed xxhash64 collision pair as keys). A third of the runs are "
     "fault-free sequences; a third come in families of 12 sharing one structure while the failing Delete ordinal sweeps 0..11 (every delete position), each "
     "followed by a fault-free retry (the same labels in one call, or one call per label); a third run AddLabels / AddCache / InvalidateByLabels / writes concurrently; every 12th run injects the failure while "
     "other tasks AddLabels concurrently and ends with a fault-free sweep over all labels; every 12th run lets 2-3 clients invalidate the same labels at once with one failing Delete; every 12th run has one fault-free call over all labels while other tasks write keys back and label them again, followed by a sweep. In 20 % the constructor's "
     "argument is a slice with spare capacity that the caller keeps appending caches of its own to.",
     rules=["C15.R1 labelled keys absent after nil", "C15.R2 unlabelled keys untouched, no Delete on a cache that was never registered", "C15.R3 count = entries really removed", "C15.R4 failure returned, no panic", "C15.R5 retry removes every labelled key"],
     probes=["invalidate_ok", "invalidate_with_deleter_failure", "retry_after_failure", "retry_label_by_label", "concurrent_invalidate", "sweep_after_concurrent_failure", "sweep_judged_rewritten_and_relabelled_key"])
prop("C17", quick={"runs": 12000}, thorough={"runs": 100000000, "budget_s": 600},
     rule="1-8 client tasks call Invalidate 1-4 times each (SkipInterval from the 15 s default and 1 ns up to 100 years and MaxInt64) with sleeps around SkipInterval (-1ns, exactly, +1ns) and a context that is live, already cancelled, past its deadline, or cancelled by the first callback; 0-5 callbacks (none: nil or an empty slice) yield / sleep simulated time while the "
     "Invalidator's mutex is held (cooperative lock table); in 20 % a registrar task appends 1-2 callbacks at run time under the Invalidator's own mutex. Non-trivial: at least two calls; distinct = distinct (scenario, schedule signature).",
     rules=["C17.R1 accepted calls never overlap", "C17.R2 consecutive accepted calls start running callbacks >= SkipInterval apart", "C17.R3 every callback registered when the call was invoked (at most those registered when it returned) exactly once in order, synchronously",
            "C17.R4 rejected: no callback, ErrAlreadyInvalidated", "C17.R5 no callbacks: ErrNothingToInvalidate",
            "C17.R6 a rejection has a reason: an accepted call started at most SkipInterval before the rejected one was invoked"],
     probes=["rejected_call", "two_accepted_calls", "overlapping_invalidate_calls"])
prop("C16", quick={"runs": 12000}, thorough={"runs": 100000000, "budget_s": 900}, race=True,
     rule="Programs: every unordered pair of backend operations (write, born-expired write, read, delete, ExpireAll, DeleteAll, Len, Walk, Load, Store, "
     "Dump, Restore, a sleep that lets a janitor cleanup/eviction cycle run) on a shared key, on the three backends and the three eviction strategies, "
     "two schedules each (first 2106 runs); then random concurrent workloads of the other engines (backend mixes with janitor, Failover Gets, "
     "InvalidationIndex AddLabels/AddCache/InvalidateByLabels, Invalidator). Failover clients partly work under request contexts of their own whose builders report TTLs; harness loggers render the structs they are given pointers to. The instrumented library reports every struct-field, slice-element, scalar-cell (*p) and map access (incl. what encoding/gob reads in Dump) and "
     "every synchronisation event to a vector-clock detector; harness hand-offs create no happens-before edge. Non-trivial: >= 2 client tasks; "
     "distinct = distinct (scenario, schedule signature).",
     rules=["C16.R1 unordered conflicting accesses to a struct field or slice element (incl. atomic vs plain access)", "C16.R2 unordered conflicting operations on a Go map (runtime may throw 'concurrent map read and map write')"],
     probes=[],
     level_note="Trusted base as for the other checks, plus the detector's model of synchronisation: mutex/RWMutex (release->acquire), sync.Map operations "
     "(acquire+release on the map: coarser than reality, can only hide races), sync/atomic (acquire+release on the address), close->receive on channels, "
     "goroutine start. Tracked: fields behind pointers to the library's structs and of address-taken local struct variables, slice elements, maps, locals captured by go-closures that are assigned after their declaration. Not tracked: other locals, accesses inside the standard library. A reported pair is a race in every real "
     "execution in which both accesses happen.")
