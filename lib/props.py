"""Per-property metadata used by ./check (tier sizes, evidence texts)."""

REAL = [
    "cache.Failover / cache.FailoverOf (Get, key locks, failure cache, background builds)",
    "cache.ShardedMap, cache.SyncMap, cache.ShardedMapOf incl. Trait (TTL, jitter formula, PrepareRead), janitor goroutine, eviction",
    "cache.InvalidationIndex, cache.Invalidator, context helpers (WithTTL, SkipRead, detachedContext)",
    "gob Dump/Restore, HTTPTransfer Export/Import handlers",
    "github.com/cespare/xxhash/v2, encoding/gob, sync.Map, Go runtime maps",
]
STUB = [
    "wall clock and timers: testing/synctest bubble clock (go1.26.8)",
    "goroutine choice: seeded scheduler, one task runs at a time (strict hand-off at yield points)",
    "mutex blocking: cooperative lock table in front of the real sync.Mutex/RWMutex",
    "Go map and sync.Map.Range iteration order: sorted then permuted by the run's PRNG stream",
    "TTL jitter draw (rand.Float64 in Trait.TTL): run-controlled source",
    "user call-outs: backend wrapper, builder, logger, stats tracker, deleter, walk callbacks are harness code",
    "TCP/HTTP stack: in-process http.RoundTripper calling Export().ServeHTTP",
    "runtime.MemStats based soft limits: never enabled (not simulated)",
    "finalizers: cleared by the VerifStop hook; janitors are stopped inside the bubble",
]
ASSUMPTIONS = [
    "sampling, not enumeration: a clean batch is evidence, not proof",
    "the instrumenter's rewrites (listed under coverage.instrumentation) preserve the library's semantics; "
    "the repo's own test suite passes on the instrumented copy in pass-through mode",
    "behaviour inside sync.Map, encoding/gob, the runtime map implementation and xxhash is taken as atomic/correct",
    "a strictly increasing nanosecond clock between scheduling steps (tick >= 1 ns)",
]

PROPS = {}


def prop(pid, **kw):
    kw.setdefault("level", "exploration")
    PROPS[pid] = kw


prop(
    "C01",
    quick={"runs": 6000},
    thorough={"runs": 100000000, "budget_s": 600},
    rule="Scenarios (2-8 clients x 1-4 Gets on 1-3 keys, initial entry state absent/fresh/stale/too-stale per key, "
         "random FailoverConfig, builder scripts, backend kind, API flavour) are drawn from the seeded PRNG and executed "
         "under random / PCT / mostly-sequential schedules at call-out and lock granularity. A run is non-trivial when at "
         "least two Gets of different clients on the same key overlapped in event-sequence time; distinct = distinct "
         "(scenario, schedule signature) among those, the schedule signature being the hash of the sequence of (task, yield label).",
    rules=["C01.R1 overlap: at builder entry for key k no other builder invocation for k is between its enter and exit events (checked online)"],
    probes=["background_build", "failed_build", "get_invoked_during_build", "build_longer_than_update_ttl",
            "key_built_more_than_once", "waiter_registered"],
)

LEVEL_TEXT = ("Seeded search over schedules, clock movements and faults of the real library code inside a deterministic "
              "simulator; oracles are invariants and reference-model checks over the recorded history. A clean batch is "
              "evidence, not proof; every failure is shrunk and replays exactly.")
LEVEL_NOTE = ("Trusted base: the simulator runtime (simrt/), the instrumenter's semantics-preserving rewrites, testing/synctest of "
              "go1.26.8, and that sync.Map / encoding/gob / runtime maps / xxhash behave atomically and correctly.")
NOT_APPLICABLE = {}
