#!/bin/bash
# usage: benign_eval.sh <worktree> <name>   - negative control: a behaviour-preserving change must not raise any alarm.
set -u
wt=$1; name=$2
export GOFLAGS=-mod=mod GOPROXY=off GOSUMDB=off
out=/verif/benign/$name; mkdir -p "$out"
( cd "$wt" && git diff -- '*.go' ) > "$out/patch.diff"
cp "$wt/REFACTOR_NOTES.md" "$out/" 2>/dev/null
[ -s "$out/patch.diff" ] || { echo "EMPTY PATCH"; exit 3; }
d=$(mktemp -d /tmp/ben-XXXXXX); trap 'rm -rf "$d"' EXIT
rsync -a --exclude .git /repo/ "$d/repo/"
( cd "$d/repo" && patch -p1 -s < "$out/patch.diff" ) || { echo "PATCH DOES NOT APPLY"; exit 3; }
( cd "$d/repo" && go build ./... ) || { echo "DOES NOT COMPILE"; exit 3; }
echo "suite: $(cd "$d/repo" && go test -vet=off -count=1 ./... 2>&1 | tail -2 | tr '\n' ' ')"
: > "$out/results.txt"
for p in C01 C02 C03 C04 C05 C06 C07 C08 C09 C10 C11 C12 C13 C14 C15 C16 C17 C18; do
  r=$(VERIF_REPO="$d/repo" /verif/check $p --no-evidence 2>&1 | grep -aE "VIOLATION|INTERNAL|^  C[0-9]+\." | head -4 | cut -c1-300)
  rc=$?
  if [ -z "$r" ]; then echo "$p clean" >> "$out/results.txt"; else echo "$p: $r" | tee -a "$out/results.txt"; fi
done
echo "done: $(grep -c clean "$out/results.txt") of 18 clean"
