#!/bin/bash
# Regression over every kept sub-agent change: each seeded/<id>/patch.diff is applied to a scratch copy
# of /repo and the check of the property it was written against (meta.json "property") must report a
# violation. Prints one line per change; exit 1 if any is no longer caught.
cd /verif
rc=0
for d in seeded/*/; do
  id=$(basename "$d")
  [ -f "$d/patch.diff" ] && [ -f "$d/meta.json" ] || continue
  # the check to run: meta "check" if present (a change caught by another property's check than the one it
  # was written against), else the property it was written against
  prop=$(python3 -c "import json,sys; m=json.load(open('$d/meta.json')); print(m.get('check') or m.get('property',''))")
  [ -n "$prop" ] || { echo "$id: no property in meta.json"; continue; }
  [ "$prop" = "none" ] && { printf "%-12s %-4s %s\n" "$id" "-" "not a valid breaking change (see meta.json)"; continue; }
  r=$(tools/mutant_run.sh "$d/patch.diff" "$prop" 2>&1 | grep -aE "^exit=|PATCH-FAILED|DOES-NOT-COMPILE" | tail -1)
  printf "%-12s %-4s %s\n" "$id" "$prop" "$r"
  case "$r" in exit=1*) ;; *) rc=1;; esac
done
exit $rc
