#!/usr/bin/env python3
import json,sys
r=json.load(open(sys.argv[1]))
sc=r['scenario']
print(r['rule'], r['sig']); print(r['detail']); print(r.get('shrink'))
print(json.dumps({k:v for k,v in sc.items() if k not in('sched',)}))
print('choices', sc['sched'].get('choices'))
flt = len(sys.argv)>2
for l in r['trace']:
    if flt and '  step ' in l: continue
    print(l)
