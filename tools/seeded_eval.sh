#!/bin/bash
# usage: seeded_eval.sh <worktree> <seeded-id> <PROP> [more PROPs...]
# Confirms a sub-agent's seeded change (compiles, existing tests pass, demo fails with / passes without),
# stores it under /verif/seeded/<id>/ and runs the given checks against it (on a scratch copy).
set -u
wt=$1; id=$2; shift 2
export GOFLAGS=-mod=mod GOPROXY=off GOSUMDB=off
out=/verif/seeded/$id
mkdir -p "$out"
( cd "$wt" && git diff -- . ':(exclude)zz_seeded_demo_test.go' ':(exclude)SEEDED_NOTES.md' ) > "$out/patch.diff"
cp "$wt/zz_seeded_demo_test.go" "$out/" 2>/dev/null
cp "$wt/SEEDED_NOTES.md" "$out/" 2>/dev/null
[ -s "$out/patch.diff" ] || { echo "EMPTY PATCH"; exit 3; }
d=$(mktemp -d /tmp/seedchk-XXXXXX); trap 'rm -rf "$d"' EXIT
rsync -a --exclude .git /repo/ "$d/with/"; rsync -a --exclude .git /repo/ "$d/without/"
( cd "$d/with" && patch -p1 -s < "$out/patch.diff" ) || { echo "PATCH DOES NOT APPLY TO /repo"; exit 3; }
( cd "$d/with" && go build ./... ) || { echo "DOES NOT COMPILE"; exit 3; }
suite=$( cd "$d/with" && go test -vet=off -count=1 ./... 2>&1 | tail -3 | tr '\n' ' ' )
echo "existing suite with change: $suite"
cp "$out/zz_seeded_demo_test.go" "$d/with/"; cp "$out/zz_seeded_demo_test.go" "$d/without/"
w=$( cd "$d/with" && go test -vet=off -count=1 -run '^TestSeededDemo$' . 2>&1 | tail -1 )
wo=$( cd "$d/without" && go test -vet=off -count=1 -run '^TestSeededDemo$' . 2>&1 | tail -1 )
echo "demo with change:    $w"
echo "demo without change: $wo"
results=""
for p in "$@"; do
  r=$(/verif/tools/mutant_run.sh "$out/patch.diff" "$p" 2>&1 | grep -aE "VIOLATION|exit=|INTERNAL" | head -3 | tr '\n' ' ')
  echo "check $p: $r"
  results="$results $p:[$r]"
done
python3 - "$out" "$id" "$suite" "$w" "$wo" "$results" <<'PY'
import json,sys,os
out,id,suite,w,wo,results=sys.argv[1:7]
meta={"id":id,"suite_with_change":suite.strip(),"demo_with_change":w.strip(),"demo_without_change":wo.strip(),"checks_run":results.strip()}
old={}
if os.path.exists(out+"/meta.json"):
    old=json.load(open(out+"/meta.json"))
old.update(meta)
json.dump(old,open(out+"/meta.json","w"),indent=1)
PY
