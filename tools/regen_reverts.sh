#!/bin/bash
# Regenerates mutants/revert_*.diff (one per "fix:" commit of /repo) against /repo's HEAD.
# Reverts that conflict with later fixes are reported and must be rebased by hand.
set -u
d=$(mktemp -d /tmp/rv-XXXX); trap 'rm -rf "$d"' EXIT
git clone -q /repo "$d/r"; cd "$d/r"
declare -A names=( [bfdfc60]=revert_bfdfc60 [18eb352]=revert_18eb352 [c45ecb6]=revert_c45ecb6 [5c93deb]=revert_5c93deb
 [0a58e50]=revert_syncmap_delete [6a6df93]=revert_never_expiring_cleanup [c3c9afb]=revert_traitof_counter [11d13bc]=revert_syncmap_restore
 [4390f45]=revert_putback_panic [3ce72c1]=revert_index_live_map [fe8dced]=revert_atomic_expiration [d213523]=revert_walk_snapshot )
for c in $(git log --format=%h --grep='^fix:'); do
  n=${names[$c]:-}
  if [ -z "$n" ]; then
    s=$(git log -1 --format=%s $c)
    case "$s" in
      *"label passed twice"*) n=revert_duplicate_label;;
      *"DeleteAll must count"*) n=revert_syncmap_deleteall_count;;
      *"racing ExpireAll"*) n=revert_prepareread_order;;
      *"restored into an UnlimitedTTL"*) n=revert_restore_expirations;;
      *"jittered down to exactly zero"*) n=revert_zero_jittered_ttl;;
      *"waited for a key lock owner which did not build"*) n=revert_skipread_waiter;;
      *"rewritten after it was found expired"*) n=revert_syncmap_cleanup_cad;;
      *"ExpireAll in an UnlimitedTTL cache"*) n=revert_expireall_unlimited;;
      *"not for the ttl of the caller's context"*) n=revert_failure_ttl_from_ctx;;
      *"empty list of callbacks"*) n=revert_empty_callbacks;;
      *"copies the list of deleters"*) n=revert_index_ctor_alias;;
      *"beyond the latest timestamp"*) n=revert_ttl_overflow;;
      *"GobTypesHashReset forgets"*) n=revert_hash_reset;;
      *"ObserveMutability without a stats tracker"*) n=revert_observe_mutability_nil_stats;;
      *"logged with a copy of the entry"*) n=revert_log_live_entry;;
      *"ttl in context is read and updated atomically"*) n=revert_ctx_ttl_atomic;;
      *"checks the list of callbacks under its lock"*) n=revert_invalidator_check_unlocked;;
      *"expired entry without details"*) n=revert_plain_expired;;
      *"ExpireAll keeps expiration time"*) n=revert_expireall_restamp;;
      *"64-bit aligned on 32-bit platforms"*) n=revert_entry_alignment;;
      *"not taken over on Restore"*) n=revert_restore_usage_counter;;
      *) n=revert_$c;;
    esac
  fi
  git reset -q --hard HEAD
  # reverts that apply textually but no longer compile against later fixes are kept as rebased by hand
  case "$n" in revert_prepareread_order|revert_empty_callbacks|revert_zero_jittered_ttl|revert_bfdfc60|revert_traitof_counter|revert_restore_expirations|revert_never_expiring_cleanup|revert_atomic_expiration|revert_syncmap_restore) echo "$n kept (rebased by hand)"; continue;; esac
  if git revert -n $c >/dev/null 2>&1; then git diff HEAD > /verif/mutants/$n.diff; echo "$n ok"; else git revert --abort 2>/dev/null; echo "$n CONFLICT (rebase by hand)"; fi
done
