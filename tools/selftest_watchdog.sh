#!/bin/bash
# Self-test of the wall-clock watchdog and the driver's one-time restart of a stalled worker:
# worker 0 stalls once (outside the simulator), the watchdog ends it after 8 s, the driver restarts it,
# the check passes and the evidence records one restart.
cd /verif
m=$(mktemp -u /tmp/verif-stall-XXXXXX)
VERIF_HANG_AFTER_S=8 VERIF_FAKE_STALL_ONCE=$m ./check C17 --runs 2000 --no-evidence 2>&1 | tail -2
rc=$?
rm -f "$m"
echo "exit=$rc (expected 0)"
