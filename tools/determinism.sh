#!/bin/bash
# usage: determinism.sh <PROP> [runs]  - every run executed in 6 separate OS processes
# (GOMAXPROCS 1, 4, 16, twice each); event-log hashes must agree.
set -u
prop=$1; runs=${2:-300}
cd /verif
out=$(./check "$prop" --runs 16 --no-evidence --keep-scratch 2>&1)
scratch=$(echo "$out" | sed -n 's/^scratch kept at //p')
[ -d "$scratch" ] || { echo "$out"; exit 2; }
trap 'rm -rf "$scratch"' EXIT
i=0
for gmp in 1 4 16 1 4 16; do
  i=$((i+1))
  for seed in 1 7; do
  VERIF_PROP=$prop VERIF_SEED=$seed VERIF_RUNS=$runs VERIF_WORKERS=1 VERIF_WORKER=0 VERIF_TIER=quick \
  VERIF_OUT=$scratch/d$i-$seed.json VERIF_REPLAY_DIR=$scratch/rp VERIF_HASHLOG=$scratch/h$i-$seed.txt GOMAXPROCS=$gmp VERIF_MAX_VIOL=100000 VERIF_SHRINK_S=0 \
    "$scratch/sim.test" -test.run '^TestSim$' -test.timeout 30m -test.cpu $gmp > "$scratch/log$i-$seed.txt" 2>&1 &
  done
done
wait
rc=0
for seed in 1 7; do
for i in 2 3 4 5 6; do
  if ! cmp -s "$scratch/h1-$seed.txt" "$scratch/h$i-$seed.txt"; then
    echo "DIVERGENCE prop=$prop seed=$seed between process 1 and $i:"; diff "$scratch/h1-$seed.txt" "$scratch/h$i-$seed.txt" | head -5; rc=1
  fi
done
echo "$prop seed=$seed: $(wc -l < $scratch/h1-$seed.txt) runs x 6 processes compared"
done
[ $rc = 0 ] && echo "DETERMINISTIC $prop"
exit $rc
