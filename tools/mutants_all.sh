#!/bin/bash
# Runs every own mutant against the check(s) expected to catch it; prints one line each.
cd /verif
while read -r m props; do
  for p in $props; do
    r=$(tools/mutant_run.sh mutants/$m.diff $p 2>&1 | grep -aE "^exit=|PATCH-FAILED|DOES-NOT-COMPILE" | tail -1)
    printf "%-40s %-4s %s\n" "$m" "$p" "$r"
  done
done <<'LIST'
c01_bg_release_before_build C01
c09_read_ignores_key_compare C09 C07
c05_syncread_outside_lock C05 C04
revert_bfdfc60 C06
revert_18eb352 C04 C09
revert_c45ecb6 C02
revert_5c93deb C03 C02
revert_syncmap_delete C07 C18 C15
revert_never_expiring_cleanup C11 C12
revert_traitof_counter C11
revert_syncmap_restore C13 C14
revert_putback_panic C15
revert_index_live_map C16
revert_atomic_expiration C16
revert_walk_snapshot C16
revert_duplicate_label C15
revert_syncmap_deleteall_count C18
c18_expireall_count_before_lock C18
c12_sys_limit_ignored C12
revert_restore_expirations C11
revert_zero_jittered_ttl C10
revert_skipread_waiter C06
revert_syncmap_cleanup_cad C08 C11
revert_expireall_unlimited C11
log_guard_wrong_level C04
c16_key_copy_after_go C16
c04_global_lock_during_sync_build C04
c07_walk_holds_lock_during_callback C07
c07_nil_value_is_miss C07
revert_failure_ttl_from_ctx C05
revert_empty_callbacks C17
revert_index_ctor_alias C15
revert_ttl_overflow C10
revert_hash_reset C14
revert_observe_mutability_nil_stats C02 C04 C06
revert_log_live_entry C16
revert_ctx_ttl_atomic C16
revert_invalidator_check_unlocked C16
revert_plain_expired C03
revert_expireall_restamp C03 C07 C11
revert_entry_alignment C07
revert_restore_usage_counter C12
LIST
