// Command instrument rewrites the non-test files of package cache in a scratch copy so that
// every source of nondeterminism goes through cache/zzverifsim. All edits are newline-free
// text edits at AST positions, so line numbers of the instrumented files equal the original.
//
// usage: instrument [-race] <dir of package cache (scratch copy)>
package main

import (
	"bytes"
	"flag"
	"fmt"
	"go/ast"
	"go/build"
	"go/importer"
	"go/parser"
	"go/token"
	"go/types"
	"os"
	"path/filepath"
	"sort"
	"strings"
)

type edit struct {
	start, end int // byte offsets; start==end is an insertion
	text       string
	prio       int // order among insertions at the same offset (lower first)
}

type fileCtx struct {
	name  string
	src   []byte
	file  *ast.File
	edits []edit
}

var (
	fset    = token.NewFileSet()
	info    *types.Info
	counter int
	stats   = map[string]int{}
	fatal   []string
	race    bool
)

func main() {
	flag.BoolVar(&race, "race", false, "also emit memory-access events for the happens-before detector")
	flag.Parse()

	dir := flag.Arg(0)
	if dir == "" {
		fmt.Fprintln(os.Stderr, "usage: instrument [-race] dir")
		os.Exit(2)
	}

	if err := os.Chdir(dir); err != nil {
		die(err)
	}

	names, _ := filepath.Glob("*.go")
	sort.Strings(names)

	var (
		files []*fileCtx
		asts  []*ast.File
	)

	for _, n := range names {
		if strings.HasSuffix(n, "_test.go") || strings.HasPrefix(n, "zz_verif") {
			continue
		}

		// honour build constraints the way the compiler building the simulator will (release tags of the
		// running toolchain, the verif tag): version-gated twins of a file must not both be loaded
		bctx := build.Default
		bctx.BuildTags = append(bctx.BuildTags, "verif")

		if ok, err := bctx.MatchFile(".", n); err == nil && !ok {
			continue
		}

		src, err := os.ReadFile(n)
		if err != nil {
			die(err)
		}

		f, err := parser.ParseFile(fset, n, src, parser.ParseComments)
		if err != nil {
			die(err)
		}

		if f.Name.Name != "cache" {
			continue
		}

		files = append(files, &fileCtx{name: n, src: src, file: f})
		asts = append(asts, f)
	}

	info = &types.Info{
		Types:      map[ast.Expr]types.TypeAndValue{},
		Selections: map[*ast.SelectorExpr]*types.Selection{},
		Uses:       map[*ast.Ident]types.Object{},
		Defs:       map[*ast.Ident]types.Object{},
	}

	conf := types.Config{
		Importer: importer.ForCompiler(fset, "source", nil),
		Error:    func(err error) { fatal = append(fatal, "typecheck: "+err.Error()) },
	}

	_, _ = conf.Check("github.com/bool64/cache", fset, asts, info)

	if len(fatal) > 0 {
		for _, m := range fatal {
			fmt.Fprintln(os.Stderr, m)
		}

		os.Exit(2)
	}

	for _, fc := range files {
		fc.instrument()
	}

	if len(fatal) > 0 {
		for _, m := range fatal {
			fmt.Fprintln(os.Stderr, "instrument: "+m)
		}

		os.Exit(2)
	}

	for _, fc := range files {
		if len(fc.edits) == 0 {
			continue
		}

		out := fc.apply()
		if err := os.WriteFile(fc.name, out, 0o600); err != nil {
			die(err)
		}
	}

	keys := make([]string, 0, len(stats))
	for k := range stats {
		keys = append(keys, k)
	}

	sort.Strings(keys)

	for _, k := range keys {
		fmt.Printf("instrument: %s=%d\n", k, stats[k])
	}
}

func die(err error) {
	fmt.Fprintln(os.Stderr, "instrument:", err)
	os.Exit(2)
}

func (fc *fileCtx) off(p token.Pos) int { return fset.Position(p).Offset }

func (fc *fileCtx) text(n ast.Node) string { return string(fc.src[fc.off(n.Pos()):fc.off(n.End())]) }

func (fc *fileCtx) label(p token.Pos) string {
	pos := fset.Position(p)

	return fmt.Sprintf("%s:%d", fc.name, pos.Line)
}

func (fc *fileCtx) replace(from, to token.Pos, text string) {
	fc.edits = append(fc.edits, edit{start: fc.off(from), end: fc.off(to), text: text})
}

func (fc *fileCtx) insert(at token.Pos, text string, prio int) {
	o := fc.off(at)
	fc.edits = append(fc.edits, edit{start: o, end: o, text: text, prio: prio})
}

func (fc *fileCtx) apply() []byte {
	sort.SliceStable(fc.edits, func(i, j int) bool {
		a, b := fc.edits[i], fc.edits[j]
		if a.start != b.start {
			return a.start < b.start
		}

		// insertions before replacements starting at the same offset
		ai, bi := a.start == a.end, b.start == b.end
		if ai != bi {
			return ai
		}

		return a.prio < b.prio
	})

	var out bytes.Buffer

	pos := 0

	for _, e := range fc.edits {
		if e.start < pos {
			fatalf("%s: overlapping edits at offset %d (%q)", fc.name, e.start, e.text)

			continue
		}

		out.Write(fc.src[pos:e.start])
		out.WriteString(e.text)
		pos = e.end
	}

	out.Write(fc.src[pos:])

	if len(fatal) > 0 {
		for _, m := range fatal {
			fmt.Fprintln(os.Stderr, "instrument: "+m)
		}

		os.Exit(2)
	}

	return out.Bytes()
}

func fatalf(format string, args ...interface{}) {
	fatal = append(fatal, fmt.Sprintf(format, args...))
}

func isNamed(t types.Type, pkg, name string) bool {
	if p, ok := t.(*types.Pointer); ok {
		t = p.Elem()
	}

	n, ok := t.(*types.Named)
	if !ok {
		return false
	}

	o := n.Obj()

	return o.Pkg() != nil && o.Pkg().Path() == pkg && o.Name() == name
}

// recvArg renders the receiver expression as a pointer-valued argument.
func (fc *fileCtx) recvArg(x ast.Expr) string {
	t := info.TypeOf(x)
	if t == nil {
		fatalf("%s: no type for receiver %s", fc.label(x.Pos()), fc.text(x))

		return fc.text(x)
	}

	if _, ok := t.Underlying().(*types.Pointer); ok {
		return fc.text(x)
	}

	return "&" + fc.text(x)
}

func (fc *fileCtx) methodOf(call *ast.CallExpr) (recv ast.Expr, pkg, typ, name string) {
	sel, ok := call.Fun.(*ast.SelectorExpr)
	if !ok {
		return nil, "", "", ""
	}

	s := info.Selections[sel]
	if s == nil || s.Kind() != types.MethodVal {
		return nil, "", "", ""
	}

	fn, ok := s.Obj().(*types.Func)
	if !ok {
		return nil, "", "", ""
	}

	sig := fn.Type().(*types.Signature)
	if sig.Recv() == nil {
		return nil, "", "", ""
	}

	rt := sig.Recv().Type()
	if p, ok := rt.(*types.Pointer); ok {
		rt = p.Elem()
	}

	n, ok := rt.(*types.Named)
	if !ok || n.Obj().Pkg() == nil {
		return nil, "", "", ""
	}

	return sel.X, n.Obj().Pkg().Path(), n.Obj().Name(), fn.Name()
}

func (fc *fileCtx) instrument() {
	before := len(fc.edits)

	ast.Inspect(fc.file, func(n ast.Node) bool {
		switch v := n.(type) {
		case *ast.CallExpr:
			fc.call(v)
		case *ast.GoStmt:
			fc.goStmt(v)
		case *ast.ExprStmt:
			fc.exprStmt(v)
		case *ast.SelectStmt:
			fc.selectStmt(v)
		case *ast.RangeStmt:
			fc.rangeStmt(v)
		case *ast.SendStmt:
			fatalf("%s: channel send in package cache is not modelled by the simulator", fc.label(v.Pos()))
		case *ast.UnaryExpr:
			if v.Op == token.ARROW {
				fc.recvExpr(v)
			}
		}

		return true
	})

	if race {
		fc.raceInstrument()
	}

	if len(fc.edits) > before {
		// Same line as the package clause: keeps line numbers intact.
		imp := `; import zzverifsim "github.com/bool64/cache/zzverifsim"`
		fc.insert(fc.file.Name.End(), imp, 0)
	}
}

var handledRecv = map[*ast.UnaryExpr]bool{}

func (fc *fileCtx) recvExpr(u *ast.UnaryExpr) {
	if handledRecv[u] {
		return
	}

	fatalf("%s: channel receive %q in a position the instrumenter does not model", fc.label(u.Pos()), fc.text(u))
}

func (fc *fileCtx) call(call *ast.CallExpr) {
	// close(ch)
	if id, ok := call.Fun.(*ast.Ident); ok && id.Name == "close" && len(call.Args) == 1 {
		if _, isBuiltin := info.Uses[id].(*types.Builtin); isBuiltin {
			if ch, ok := info.TypeOf(call.Args[0]).Underlying().(*types.Chan); ok {
				if st, ok := ch.Elem().Underlying().(*types.Struct); ok && st.NumFields() == 0 && ch.Dir() == types.SendRecv {
					fc.replace(call.Pos(), call.Lparen+1, "zzverifsim.Close(")
					stats["close"]++
				}
			}
		}

		return
	}

	// sync/atomic operations are yield points: a read-modify-write split into separate atomic
	// operations can be interleaved (in race mode the detector's wrapper yields instead)
	if sel, ok := call.Fun.(*ast.SelectorExpr); ok && !race && len(call.Args) > 0 {
		if id, ok := sel.X.(*ast.Ident); ok {
			if pn, ok := info.Uses[id].(*types.PkgName); ok && pn.Imported().Path() == "sync/atomic" {
				fc.insert(call.Args[0].Pos(), "zzverifsim.AtomicYield(", -5)
				fc.insert(call.Args[0].End(), ")", -5)
				stats["atomic.yield"]++

				return
			}
		}
	}

	// time.Sleep(d): the task must announce that it blocks on the simulated clock
	if sel, ok := call.Fun.(*ast.SelectorExpr); ok {
		if id, ok := sel.X.(*ast.Ident); ok {
			if pn, ok := info.Uses[id].(*types.PkgName); ok && pn.Imported().Path() == "time" && sel.Sel.Name == "Sleep" {
				fc.replace(call.Fun.Pos(), call.Fun.End(), "zzverifsim.Sleep")
				stats["time.Sleep"]++

				return
			}
		}
	}

	// rand.Float64()
	if sel, ok := call.Fun.(*ast.SelectorExpr); ok {
		if id, ok := sel.X.(*ast.Ident); ok {
			if pn, ok := info.Uses[id].(*types.PkgName); ok && pn.Imported().Path() == "math/rand" && sel.Sel.Name == "Float64" {
				fc.replace(call.Pos(), call.End(), "zzverifsim.Float64("+fc.text(call.Fun)+")")
				stats["rand.Float64"]++

				return
			}
		}
	}

	recv, pkg, typ, name := fc.methodOf(call)
	if recv == nil || pkg != "sync" {
		return
	}

	lbl := fmt.Sprintf("%q", fc.label(call.Pos()))

	switch typ {
	case "Mutex", "RWMutex":
		fn := map[string]string{"Lock": "MuLock", "Unlock": "MuUnlock", "RLock": "MuRLock", "RUnlock": "MuRUnlock",
			"TryLock": "MuTryLock", "TryRLock": "MuTryRLock"}[name]
		if fn == "" {
			fatalf("%s: sync.%s.%s is not modelled by the simulator", fc.label(call.Pos()), typ, name)

			return
		}

		fc.replace(call.Pos(), call.End(), fmt.Sprintf("zzverifsim.%s(%s, %s)", fn, lbl, fc.recvArg(recv)))
		stats["mutex."+name]++
	case "Pool":
		fn := map[string]string{"Get": "PoolGet", "Put": "PoolPut"}[name]
		if fn == "" {
			fatalf("%s: sync.Pool.%s is not modelled by the simulator", fc.label(call.Pos()), name)

			return
		}

		sep := ""
		if len(call.Args) > 0 {
			sep = ", "
		}

		fc.replace(call.Pos(), call.Lparen+1, fmt.Sprintf("zzverifsim.%s(%s%s", fn, fc.recvArg(recv), sep))
		stats["pool."+name]++
	case "Map":
		fn := map[string]string{
			"Load": "SMLoad", "Store": "SMStore", "Delete": "SMDelete", "Range": "SMRange",
			"LoadAndDelete": "SMLoadAndDelete", "LoadOrStore": "SMLoadOrStore", "CompareAndDelete": "SMCompareAndDelete",
		}[name]
		if fn == "" {
			fatalf("%s: sync.Map.%s is not modelled by the simulator", fc.label(call.Pos()), name)

			return
		}

		fc.replace(call.Pos(), call.Lparen+1, fmt.Sprintf("zzverifsim.%s(%s, ", fn, fc.recvArg(recv)))
		stats["syncmap."+name]++
	default:
		fatalf("%s: sync.%s.%s is not modelled by the simulator", fc.label(call.Pos()), typ, name)
	}
}

func (fc *fileCtx) goStmt(g *ast.GoStmt) {
	lbl := fmt.Sprintf("%q", fc.label(g.Pos()))
	stats["go"]++

	if fl, ok := g.Call.Fun.(*ast.FuncLit); ok && len(g.Call.Args) == 0 {
		// go func() {...}()  ->  zzverifsim.Go(label, func() {...})
		fc.replace(g.Pos(), fl.Pos(), "zzverifsim.Go("+lbl+", ")
		fc.replace(fl.End(), g.Call.End(), ")")

		return
	}

	counter++
	n := counter

	var b strings.Builder

	fmt.Fprintf(&b, "{ zzvF%d := %s; ", n, fc.text(g.Call.Fun))

	args := make([]string, len(g.Call.Args))
	for i, a := range g.Call.Args {
		fmt.Fprintf(&b, "zzvA%d_%d := %s; ", n, i, fc.text(a))
		args[i] = fmt.Sprintf("zzvA%d_%d", n, i)
	}

	ell := ""
	if g.Call.Ellipsis.IsValid() {
		ell = "..."
	}

	fmt.Fprintf(&b, "zzverifsim.Go(%s, func() { zzvF%d(%s%s) }) }", lbl, n, strings.Join(args, ", "), ell)
	fc.replace(g.Pos(), g.End(), b.String())
}

func isStructChan(t types.Type) bool {
	ch, ok := t.Underlying().(*types.Chan)
	if !ok {
		return false
	}

	st, ok := ch.Elem().Underlying().(*types.Struct)

	return ok && st.NumFields() == 0
}

func (fc *fileCtx) exprStmt(s *ast.ExprStmt) {
	if handledStmt[s] {
		return
	}

	u, ok := s.X.(*ast.UnaryExpr)
	if !ok || u.Op != token.ARROW {
		return
	}

	if !isStructChan(info.TypeOf(u.X)) {
		fatalf("%s: receive from a channel that is not chan struct{}", fc.label(s.Pos()))

		return
	}

	handledRecv[u] = true

	fc.replace(s.Pos(), s.End(), fmt.Sprintf("zzverifsim.Recv(%q, %s)", fc.label(s.Pos()), fc.text(u.X)))
	stats["recv"]++
}

func (fc *fileCtx) selectStmt(s *ast.SelectStmt) {
	for _, c := range s.Body.List {
		cc := c.(*ast.CommClause)
		if cc.Comm == nil {
			// select with default never blocks: mark its receives handled and leave it alone.
			for _, c2 := range s.Body.List {
				markRecv(c2.(*ast.CommClause).Comm)
			}

			return
		}
	}

	counter++
	tok := fmt.Sprintf("zzvTok%d", counter)

	fc.insert(s.Pos(), fmt.Sprintf("{ %s := zzverifsim.BeforeBlock(%q, zzverifsim.BlockSelect); ", tok, fc.label(s.Pos())), 0)

	for _, c := range s.Body.List {
		cc := c.(*ast.CommClause)
		if _, isSend := cc.Comm.(*ast.SendStmt); isSend {
			fatalf("%s: select send case is not modelled", fc.label(cc.Pos()))
		}

		markRecv(cc.Comm)
		fc.insert(cc.Colon+1, fmt.Sprintf(" zzverifsim.AfterBlock(%s);", tok), 0)
	}

	fc.insert(s.Body.Rbrace, fmt.Sprintf("case <-%s.Kill(): %s.Die(); ", tok, tok), 0)
	fc.insert(s.End(), " }", 9)
	stats["select"]++
}

var handledStmt = map[ast.Stmt]bool{}

func markRecv(st ast.Stmt) {
	handledStmt[st] = true
	ast.Inspect(st, func(n ast.Node) bool {
		if u, ok := n.(*ast.UnaryExpr); ok && u.Op == token.ARROW {
			handledRecv[u] = true
		}

		return true
	})
}

func (fc *fileCtx) rangeStmt(r *ast.RangeStmt) {
	t := info.TypeOf(r.X)
	if t == nil {
		return
	}

	if _, ok := t.Underlying().(*types.Chan); ok {
		fatalf("%s: range over channel is not modelled", fc.label(r.Pos()))

		return
	}

	if _, ok := t.Underlying().(*types.Slice); ok && race {
		fc.rangeSlice(r)

		return
	}

	if _, ok := t.Underlying().(*types.Map); !ok {
		return
	}

	if r.Tok != token.DEFINE && (r.Key != nil || r.Value != nil) {
		fatalf("%s: range over map with '=' is not modelled", fc.label(r.Pos()))

		return
	}

	counter++
	n := counter
	m := fmt.Sprintf("zzvM%d", n)

	key := "_"
	if id, ok := r.Key.(*ast.Ident); ok && id.Name != "_" {
		key = id.Name
	}

	val := ""
	if id, ok := r.Value.(*ast.Ident); ok && id.Name != "_" {
		val = id.Name
	}

	if key == "_" {
		key = fmt.Sprintf("zzvK%d", n)
	}

	var b strings.Builder

	fmt.Fprintf(&b, "{ %s := %s; for _, %s := range zzverifsim.MapKeys(%s) { ", m, fc.text(r.X), key, m)

	if val != "" {
		fmt.Fprintf(&b, "%s, zzvOk%d := %s[%s]; if !zzvOk%d { continue }; ", val, n, m, key, n)
	} else {
		fmt.Fprintf(&b, "if _, zzvOk%d := %s[%s]; !zzvOk%d { continue }; ", n, m, key, n)
	}

	if race {
		fmt.Fprintf(&b, "zzverifsim.AccessMap(zzverifsim.MapPtr(%s), false, %q); ", m, fc.label(r.Pos())+"|"+fc.funcAt(r.Pos())+":map-range")
	}

	fc.replace(r.Pos(), r.Body.Lbrace+1, b.String())
	fc.insert(r.End(), " }", 8)
	stats["maprange"]++
}

// funcAt names the function declaration enclosing a position.
func (fc *fileCtx) funcAt(p token.Pos) string {
	for _, d := range fc.file.Decls {
		fd, ok := d.(*ast.FuncDecl)
		if !ok || p < fd.Pos() || p > fd.End() {
			continue
		}

		name := fd.Name.Name

		if fd.Recv != nil && len(fd.Recv.List) == 1 {
			t := fd.Recv.List[0].Type
			if st, ok := t.(*ast.StarExpr); ok {
				t = st.X
			}

			if ix, ok := t.(*ast.IndexExpr); ok {
				t = ix.X
			}

			if id, ok := t.(*ast.Ident); ok {
				name = id.Name + "." + name
			}
		}

		return name
	}

	return "?"
}

// rangeSlice (race mode): `for i, v := range S {` reads element i in iteration i; the detector is
// told about exactly those reads:  { zzS := S; for i, v := range zzS { _ = zzverifsim.R(&zzS[i], pos); ...
func (fc *fileCtx) rangeSlice(r *ast.RangeStmt) {
	val, ok := r.Value.(*ast.Ident)
	if !ok || val.Name == "_" || r.Tok != token.DEFINE {
		return // no element is read
	}

	counter++
	n := counter
	sl := fmt.Sprintf("zzvS%d", n)

	key := fmt.Sprintf("zzvI%d", n)
	if id, ok := r.Key.(*ast.Ident); ok && id.Name != "_" {
		key = id.Name
	}

	hdr := fmt.Sprintf("{ %s := %s; for %s, %s := range %s { _ = zzverifsim.R(&%s[%s], %q); ", sl, fc.text(r.X), key, val.Name, sl, sl, key,
		fc.label(r.Pos())+"|"+fc.funcAt(r.Pos())+":slice-range")
	fc.replace(r.Pos(), r.Body.Lbrace+1, hdr)
	fc.insert(r.End(), " }", 8)
	stats["race.slicerange"]++
}
