module verif/instrument

go 1.21
