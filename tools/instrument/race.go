package main

import (
	"fmt"
	"go/ast"
	"go/token"
	"go/types"
)

// raceInstrument emits memory-access events for the happens-before detector (C16), as pure
// insertions around expressions so that evaluation order and short-circuiting are unchanged:
//
//	x.f            ->  (*zzverifsim.R(&x.f, pos))         x: pointer to a struct declared in package cache
//	x.f = v        ->  (*zzverifsim.W(&x.f, pos)) = v
//	m[k]           ->  zzverifsim.MR(m, pos)[k]           m: Go map
//	m[k] = v       ->  zzverifsim.MW(m, pos)[k] = v
//	delete(m, k)   ->  delete(zzverifsim.MW(m, pos), k)
//	len(m)         ->  len(zzverifsim.MR(m, pos))
//	atomic.F(&x.f) ->  atomic.F(zzverifsim.AtomicPtr(&x.f))
func (fc *fileCtx) raceInstrument() {
	// spans replaced by the other rewrites: nothing may be inserted inside them
	type span struct{ a, b int }

	var replaced []span

	for _, e := range fc.edits {
		if e.end > e.start {
			replaced = append(replaced, span{e.start, e.end})
		}
	}

	inside := func(n ast.Node) bool {
		a, b := fc.off(n.Pos()), fc.off(n.End())
		for _, s := range replaced {
			if a < s.b && s.a < b {
				return true
			}
		}

		return false
	}

	// enclosing function of every node (for stable race signatures)
	encl := map[ast.Node]string{}

	for _, d := range fc.file.Decls {
		fd, ok := d.(*ast.FuncDecl)
		if !ok {
			continue
		}

		name := fd.Name.Name

		if fd.Recv != nil && len(fd.Recv.List) == 1 {
			t := fd.Recv.List[0].Type
			if st, ok := t.(*ast.StarExpr); ok {
				t = st.X
			}

			if ix, ok := t.(*ast.IndexExpr); ok {
				t = ix.X
			}

			if id, ok := t.(*ast.Ident); ok {
				name = id.Name + "." + name
			}
		}

		ast.Inspect(fd, func(n ast.Node) bool {
			if n != nil {
				encl[n] = name
			}

			return true
		})
	}

	lbl := func(n ast.Node, what string) string {
		return fmt.Sprintf("%q", fc.label(n.Pos())+"|"+encl[n]+":"+what)
	}

	writes := map[ast.Expr]bool{}
	addrOf := map[ast.Expr]bool{}
	// addrObjs: local struct variables whose address is taken somewhere (&e handed to a decoder, stored in
	// a map, ...): once published their fields are as shared as those behind a pointer
	addrObjs := map[types.Object]bool{}
	// captured: local variables of a function that a `go func() {...}()` closure refers to and that are
	// assigned somewhere after their declaration; their reads and writes are reported like field accesses.
	// defineLHS: identifiers on the left of := or of a range clause (cannot be wrapped).
	captured := map[types.Object]bool{}
	assigned := map[types.Object]bool{}
	defineLHS := map[*ast.Ident]bool{}
	atomics := map[ast.Expr]string{}

	unparen := func(e ast.Expr) ast.Expr {
		for {
			p, ok := e.(*ast.ParenExpr)
			if !ok {
				return e
			}

			e = p.X
		}
	}

	ast.Inspect(fc.file, func(n ast.Node) bool {
		switch v := n.(type) {
		case *ast.AssignStmt:
			for _, l := range v.Lhs {
				if v.Tok != token.DEFINE {
					writes[unparen(l)] = true
				}

				if id, ok := unparen(l).(*ast.Ident); ok {
					if v.Tok == token.DEFINE {
						defineLHS[id] = true
					}

					if obj := info.Uses[id]; obj != nil {
						assigned[obj] = true // also a redeclaration in := assigns the existing variable
					}
				}
			}
		case *ast.RangeStmt:
			for _, x := range []ast.Expr{v.Key, v.Value} {
				if id, ok := x.(*ast.Ident); ok {
					defineLHS[id] = true

					if obj := info.Uses[id]; obj != nil {
						assigned[obj] = true
					}
				}
			}
		case *ast.GoStmt:
			if fl, ok := v.Call.Fun.(*ast.FuncLit); ok {
				ast.Inspect(fl.Body, func(m ast.Node) bool {
					id, ok := m.(*ast.Ident)
					if !ok {
						return true
					}

					obj, ok := info.Uses[id].(*types.Var)
					if !ok || obj.IsField() || obj.Pkg() == nil || obj.Parent() == obj.Pkg().Scope() {
						return true
					}

					if obj.Pos() < fl.Pos() || obj.Pos() > fl.End() {
						captured[obj] = true
					}

					return true
				})
			}
		case *ast.IncDecStmt:
			writes[unparen(v.X)] = true

			if id, ok := unparen(v.X).(*ast.Ident); ok {
				if obj := info.Uses[id]; obj != nil {
					assigned[obj] = true
				}
			}
		case *ast.UnaryExpr:
			if v.Op == token.AND {
				addrOf[unparen(v.X)] = true

				if id, ok := unparen(v.X).(*ast.Ident); ok {
					if obj := info.Uses[id]; obj != nil {
						addrObjs[obj] = true
					}
				}
			}
		case *ast.CallExpr:
			if sel, ok := v.Fun.(*ast.SelectorExpr); ok {
				if id, ok := sel.X.(*ast.Ident); ok {
					if pn, ok := info.Uses[id].(*types.PkgName); ok && pn.Imported().Path() == "sync/atomic" && len(v.Args) > 0 {
						store := "true"
						if len(sel.Sel.Name) >= 4 && sel.Sel.Name[:4] == "Load" {
							store = "false"
						}

						what := "atomic"
						if u, ok := unparen(v.Args[0]).(*ast.UnaryExpr); ok && u.Op == token.AND {
							if fs, ok := unparen(u.X).(*ast.SelectorExpr); ok {
								what = fs.Sel.Name
							}
						}

						atomics[v.Args[0]] = store + ", " + lbl(v, what)
					}
				}

				// encoding/gob reflects over the whole value it is given
				if s := info.Selections[sel]; s != nil && s.Kind() == types.MethodVal && sel.Sel.Name == "Encode" && len(v.Args) == 1 {
					if fn, ok := s.Obj().(*types.Func); ok && fn.Pkg() != nil && fn.Pkg().Path() == "encoding/gob" && !inside(v.Args[0]) {
						fc.wrap(v.Args[0], 3, "zzverifsim.ReadAll(", ", "+lbl(v, "gob.Encode")+")")
						stats["race.readall"]++
					}
				}
			}

			if id, ok := v.Fun.(*ast.Ident); ok && len(v.Args) >= 1 {
				if _, isBuiltin := info.Uses[id].(*types.Builtin); isBuiltin {
					if id.Name == "append" && !inside(id) && len(v.Args) >= 2 {
						if _, isSlice := typeOf(v.Args[0]).(*types.Slice); isSlice {
							if v.Ellipsis.IsValid() {
								if _, srcSlice := typeOf(v.Args[1]).(*types.Slice); srcSlice {
									fc.replace(id.Pos(), v.Lparen+1, "zzverifsim.AppendSlice("+lbl(v, "append")+", ")
									fc.replace(v.Ellipsis, v.Ellipsis+3, "")
									stats["race.append"]++
								}
							} else {
								fc.replace(id.Pos(), v.Lparen+1, "zzverifsim.Append("+lbl(v, "append")+", ")
								stats["race.append"]++
							}
						}
					}

					if _, isMap := typeOf(v.Args[0]).(*types.Map); isMap && !inside(v.Args[0]) {
						switch id.Name {
						case "delete":
							fc.wrap(v.Args[0], 1, "zzverifsim.MW(", ", "+lbl(v, "map-delete")+")")
							stats["race.mapwrite"]++
						case "len":
							fc.wrap(v.Args[0], 1, "zzverifsim.MR(", ", "+lbl(v, "map-len")+")")
							stats["race.mapread"]++
						}
					}
				}
			}
		}

		return true
	})

	ast.Inspect(fc.file, func(n ast.Node) bool {
		switch v := n.(type) {
		case *ast.FuncDecl:
			// constructors run before the instance is shared
			return true
		case *ast.CallExpr:
			// x.M() where x is a pointer to a cache struct and M has a value receiver: the call copies
			// the whole struct (plain reads of every field)
			if sel, ok := v.Fun.(*ast.SelectorExpr); ok && !inside(sel.X) {
				if sl := info.Selections[sel]; sl != nil && sl.Kind() == types.MethodVal && ptrToCacheStruct(typeOf(sel.X)) {
					if fn, ok := sl.Obj().(*types.Func); ok {
						if sig, ok := fn.Type().(*types.Signature); ok && sig.Recv() != nil {
							if _, isPtr := sig.Recv().Type().(*types.Pointer); !isPtr && len(sl.Index()) == 1 {
								fc.wrap(sel.X, 3, "zzverifsim.ReadAllP(", ", "+lbl(v, "value-receiver-copy")+")")
								stats["race.recvcopy"]++
							}
						}
					}
				}
			}
		case *ast.StarExpr:
			// *p where p points to a scalar (e.g. the ttl cell that travels in a context and is shared with
			// whoever holds the context): a plain read or write of that cell
			if tv, ok := info.Types[v]; ok && tv.IsValue() && !inside(v.X) && !addrOf[v] {
				if pt, ok := typeOf(v.X).(*types.Pointer); ok {
					if _, basic := pt.Elem().Underlying().(*types.Basic); basic {
						fn := "R"
						if writes[v] {
							fn = "W"
						}

						fc.wrap(v.X, 3, "zzverifsim."+fn+"(", ", "+lbl(v, "deref")+")")
						stats["race.deref"+fn]++

						return true
					}
				}
			}

			// *p as a value (struct copy) where p points to a cache struct
			if tv, ok := info.Types[v]; ok && tv.IsValue() && !writes[v] && !inside(v.X) && ptrToCacheStruct(typeOf(v.X)) {
				fc.wrap(v.X, 3, "zzverifsim.ReadAllP(", ", "+lbl(v, "struct-copy")+")")
				stats["race.structcopy"]++
			}
		case *ast.Ident:
			obj := info.Uses[v]
			if obj == nil || !captured[obj] || !(assigned[obj] || addrObjs[obj]) || inside(v) || addrOf[v] || defineLHS[v] {
				return true
			}

			fn := "R"
			if writes[v] {
				fn = "W"
			}

			fc.wrap(v, 0, "(*zzverifsim."+fn+"(&", ", "+lbl(v, "var-"+v.Name)+"))")
			stats["race.captured"+fn]++
		case *ast.SelectorExpr:
			s := info.Selections[v]
			if s == nil || s.Kind() != types.FieldVal || inside(v) {
				return true
			}

			if !ptrToCacheStruct(typeOf(v.X)) {
				id, ok := unparen(v.X).(*ast.Ident)
				if !ok || !addrObjs[info.Uses[id]] || info.TypeOf(v.X) == nil || !ptrToCacheStruct(types.NewPointer(info.TypeOf(v.X))) {
					return true
				}
			}

			if addrOf[v] {
				return true // &x.f computes an address, it does not access the field
			}

			fn := "R"
			if writes[v] {
				fn = "W"
			}

			fc.wrap(v, 0, "(*zzverifsim."+fn+"(&", ", "+lbl(v, v.Sel.Name)+"))")
			stats["race.field"+fn]++
		case *ast.IndexExpr:
			if _, isSlice := typeOf(v.X).(*types.Slice); isSlice && !inside(v) && !addrOf[v] {
				if tv, ok := info.Types[v]; ok && tv.IsValue() {
					fn := "R"
					if writes[v] {
						fn = "W"
					}

					fc.wrap(v, 0, "(*zzverifsim."+fn+"(&", ", "+lbl(v, "slice-elem")+"))")
					stats["race.slice"+fn]++
				}

				return true
			}

			if _, isMap := typeOf(v.X).(*types.Map); !isMap || inside(v.X) {
				return true
			}

			if writes[v] {
				fc.wrap(v.X, 1, "zzverifsim.MW(", ", "+lbl(v, "map-store")+")")
				stats["race.mapwrite"]++
			} else {
				fc.wrap(v.X, 1, "zzverifsim.MR(", ", "+lbl(v, "map-index")+")")
				stats["race.mapread"]++
			}
		}

		return true
	})

	for a, args := range atomics {
		if inside(a) {
			continue
		}

		fc.wrap(a, 2, "zzverifsim.AtomicPtr(", ", "+args+")")
		stats["race.atomic"]++
	}
}

func typeOf(e ast.Expr) types.Type {
	t := info.TypeOf(e)
	if t == nil {
		return types.Typ[types.Invalid]
	}

	return t.Underlying()
}

func ptrToCacheStruct(t types.Type) bool {
	p, ok := t.(*types.Pointer)
	if !ok {
		return false
	}

	n, ok := p.Elem().(*types.Named)
	if !ok {
		return false
	}

	if _, ok := n.Underlying().(*types.Struct); !ok {
		return false
	}

	return n.Obj().Pkg() != nil && n.Obj().Pkg().Path() == "github.com/bool64/cache"
}

// wrap inserts text before and after an expression. Nested wraps compose: an outer
// expression's prefix comes before an inner one's at the same offset, suffixes the other way
// round; priorities are derived from the expression's extent.
func (fc *fileCtx) wrap(e ast.Expr, level int, before, after string) {
	size := (fc.off(e.End())-fc.off(e.Pos()))*4 + level
	// prefix: larger / outer expression first; suffix: smaller / inner expression first
	fc.edits = append(fc.edits, edit{start: fc.off(e.Pos()), end: fc.off(e.Pos()), text: before, prio: -size})
	fc.edits = append(fc.edits, edit{start: fc.off(e.End()), end: fc.off(e.End()), text: after, prio: -10000000 + size})
}
