package main

// raceInstrument emits memory-access events for the happens-before detector (C16).
func (fc *fileCtx) raceInstrument() {}
