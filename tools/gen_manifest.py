#!/usr/bin/env python3
"""Regenerates MANIFEST.json from lib/props.py (single source of truth)."""
import json, os, sys
V = os.path.dirname(os.path.dirname(os.path.abspath(__file__)))
sys.path.insert(0, os.path.join(V, "lib"))
import props

ALL = ["C%02d" % i for i in range(1, 19)]
checks = []
for pid in ALL:
    if pid not in props.PROPS or props.PROPS[pid].get("disabled"):
        continue
    P = props.PROPS[pid]
    checks.append({
        "property_id": pid,
        "quick_cmd": "./check %s --tier quick" % pid,
        "thorough_cmd": "./check %s --tier thorough" % pid,
        "evidence_file": "evidence/%s.json" % pid,
        "replay_cmd_template": "./check %s --replay {path}" % pid,
        "engine": P.get("engine", "sim"),
        "level_claimed": {"category": P["level"], "text": P.get("level_text", props.LEVEL_TEXT), "design_ref": "DESIGN.md section 3, " + pid},
        "level_note": P.get("level_note", props.LEVEL_NOTE),
        "technique": P.get("technique", "deterministic simulation with fault injection: seeded schedule/fault search over real code in a synctest bubble"),
    })
na = [{"property_id": pid, "reason": props.NOT_APPLICABLE.get(pid, "check not built yet (work in progress in this session)")}
      for pid in ALL if pid not in {c["property_id"] for c in checks}]
m = {
    "version": 1,
    "setup_cmd": "./setup.sh",
    "hooks": {
        "guard": "verif",
        "enable": "every check copies /repo's working tree to a scratch directory, rewrites the copy with bin/instrument "
                  "(locks, go statements, channel receives, select, map ranges, sync.Map, rand.Float64 -> cache/zzverifsim), adds "
                  "overlay/zz_verif_hooks*.go (//go:build verif) and builds the simulator with `go1.26.8 test -tags verif -c`; "
                  "nothing is committed in /repo for hooks",
        "baseline_off_cmd": "cd /repo && go test -vet=off -count=1 ./...",
        "source_commits": [],
        "add_only": True,
    },
    "engines": [
        {"name": "sim", "path": "sim/", "serves_properties": [c["property_id"] for c in checks],
         "kind_free_text": "deterministic simulator: seeded scheduler over real goroutines in a testing/synctest bubble (simrt/), "
                           "AST instrumenter (tools/instrument), harness engines FO/BE/TR with reference-model oracles, shrinker, replay"},
    ],
    "checks": checks,
    "not_applicable": na,
    "notes": "Exit codes of ./check: 0 held (KNOWN-FINDING lines possible), 1 VIOLATION, 2 build/watchdog/divergence/internal. "
             "Known findings: known_findings.json. Replays: replays/<id>/ (regenerated), findings/ (committed copies).",
}
with open(os.path.join(V, "MANIFEST.json"), "w") as f:
    json.dump(m, f, indent=1)
    f.write("\n")
print("MANIFEST.json: %d checks, %d not applicable" % (len(checks), len(na)))
