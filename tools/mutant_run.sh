#!/bin/bash
# usage: mutant_run.sh <patch.diff> [--tests] <PROP> [check args...]
# Applies the patch to a scratch copy of /repo (never to /repo itself), optionally runs the
# repository's own test suite on it, then runs ./check <PROP> against the copy.
set -u
patch=$(realpath "$1"); shift
tests=0
if [ "${1:-}" = "--tests" ]; then tests=1; shift; fi
prop=$1; shift
export GOFLAGS=-mod=mod GOPROXY=off GOSUMDB=off
d=$(mktemp -d /tmp/mut-XXXXXX)
trap 'rm -rf "$d"' EXIT
rsync -a --exclude .git /repo/ "$d/repo/"
if ! (cd "$d/repo" && patch -p1 -s < "$patch"); then echo "PATCH-FAILED"; exit 3; fi
if ! (cd "$d/repo" && go build ./... 2>&1); then echo "MUTANT-DOES-NOT-COMPILE"; exit 3; fi
if [ $tests = 1 ]; then
  if ! (cd "$d/repo" && go test -vet=off -count=1 . ./bench 2>&1 | tail -5); then echo "MUTANT-FAILS-TESTS"; fi
fi
VERIF_REPO="$d/repo" /verif/check "$prop" --no-evidence "$@"
rc=$?
echo "exit=$rc"
exit $rc
