#!/bin/bash
# Offline setup: build the instrumenter and warm the go1.26.8 build cache.
set -e
cd "$(dirname "$0")"
export GOFLAGS=-mod=mod GOPROXY=off GOSUMDB=off GOTOOLCHAIN=local CGO_ENABLED=0
mkdir -p bin evidence
(cd tools/instrument && go1.26.8 build -o ../../bin/instrument .)
# warm caches: one tiny run builds std + harness
./check C01 --runs 32 --no-evidence >/dev/null 2>&1 || true
echo "setup done"
