//go:build verif
// +build verif

package cache

import (
	"fmt"
	"reflect"
	"runtime"
	"sort"

	"github.com/bool64/cache/zzverifsim"
)

// Hooks used by the deterministic simulator (/verif). This file only exists in the
// instrumented scratch copy; it is never part of the shipped package.

// VerifStop clears the finalizer and stops the janitor goroutines from inside the bubble.
func (c *ShardedMap) VerifStop() {
	runtime.SetFinalizer(c, nil)
	close(c.t.Closed)
}

// VerifStop clears the finalizer and stops the janitor goroutines from inside the bubble.
func (c *SyncMap) VerifStop() {
	runtime.SetFinalizer(c, nil)
	close(c.t.Closed)
}

// VerifStop stops the failure cache of a Failover (the backend is owned by the harness).
func (f *Failover) VerifStop() {
	if f.Errors != nil {
		f.Errors.VerifStop()
	}

	// backend created by NewFailover itself from BackendConfig (the harness stops its own backends)
	if sm, ok := f.backend.(*ShardedMap); ok {
		sm.VerifStop()
	}
}

// VerifKeyLocks returns the number of per-key build locks currently held.
func (f *Failover) VerifKeyLocks() int {
	// through the simulator's lock table: if a task holds f.lock across a scheduling point (only a broken
	// library does), the caller parks and the run ends as "stuck" instead of hanging the worker process
	zzverifsim.MuLock("verif-hook", &f.lock)
	defer zzverifsim.MuUnlockQuiet(&f.lock)

	return len(f.keyLocks)
}

// VerifKeyLockNames returns the keys of the per-key build locks currently held.
func (f *Failover) VerifKeyLockNames() []string {
	// through the simulator's lock table: if a task holds f.lock across a scheduling point (only a broken
	// library does), the caller parks and the run ends as "stuck" instead of hanging the worker process
	zzverifsim.MuLock("verif-hook", &f.lock)
	defer zzverifsim.MuUnlockQuiet(&f.lock)

	return verifMapKeyNames(f.keyLocks)
}

// verifMapKeyNames lists the keys of the key-lock table by reflection, so that the hook keeps compiling when
// the table's key type changes: string keys are reported as they are, keys of any other type as "#<value>"
// (the harness then no longer knows which Get a lock belongs to and treats every key as possibly locked).
func verifMapKeyNames(m interface{}) []string {
	v := reflect.ValueOf(m)
	if v.Kind() != reflect.Map {
		return []string{"#unknown"}
	}

	keys := v.MapKeys()
	out := make([]string, 0, len(keys))

	for _, k := range keys {
		if k.Kind() == reflect.String {
			out = append(out, k.String())
		} else {
			out = append(out, fmt.Sprintf("#%v", k.Interface()))
		}
	}

	sort.Strings(out)

	return out
}
