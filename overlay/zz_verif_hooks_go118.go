//go:build verif && go1.18
// +build verif,go1.18

package cache

import (
	"runtime"

	"github.com/bool64/cache/zzverifsim"
)

// VerifStop clears the finalizer and stops the janitor goroutines from inside the bubble.
func (c *ShardedMapOf[V]) VerifStop() {
	runtime.SetFinalizer(c, nil)
	close(c.t.Closed)
}

// VerifStop stops the failure cache of a FailoverOf (the backend is owned by the harness).
func (f *FailoverOf[V]) VerifStop() {
	if f.Errors != nil {
		f.Errors.VerifStop()
	}

	// backend created by NewFailoverOf itself from BackendConfig
	if sm, ok := f.backend.(*ShardedMapOf[V]); ok {
		sm.VerifStop()
	}
}

// VerifKeyLocks returns the number of per-key build locks currently held.
func (f *FailoverOf[V]) VerifKeyLocks() int {
	// through the simulator's lock table: if a task holds f.lock across a scheduling point (only a broken
	// library does), the caller parks and the run ends as "stuck" instead of hanging the worker process
	zzverifsim.MuLock("verif-hook", &f.lock)
	defer zzverifsim.MuUnlockQuiet(&f.lock)

	return len(f.keyLocks)
}

// VerifKeyLockNames returns the keys of the per-key build locks currently held.
func (f *FailoverOf[V]) VerifKeyLockNames() []string {
	// through the simulator's lock table: if a task holds f.lock across a scheduling point (only a broken
	// library does), the caller parks and the run ends as "stuck" instead of hanging the worker process
	zzverifsim.MuLock("verif-hook", &f.lock)
	defer zzverifsim.MuUnlockQuiet(&f.lock)

	return verifMapKeyNames(f.keyLocks)
}
